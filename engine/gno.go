package main

import (
	"fmt"
	"os"
	"path/filepath"
	"regexp"
	"strings"
)

// Gno front end (DESIGN 1.2): the .gno sources of a package are read from /repo on
// every run and copied byte for byte into a scratch Go module as .go files, with
// exactly two mechanical changes: import paths that name a Gno package for which
// /verif/shims/gno holds a signature-only stand-in are prefixed with "gnoshim/",
// and one file is added that declares the Gno predeclared types `address` and
// `realm` as aliases of the stand-ins. Function bodies are untouched.

const gnoShimRoot = "/verif/shims/gno"
const gnoModule = "gnoshim"

type GnoTarget struct {
	PkgDir string `json:"pkg_dir"` // directory under /repo holding the .gno package
}

var reImportPath = regexp.MustCompile(`(?m)^(\s*(?:[\w.]+\s+)?)"([^"]+)"\s*$`)

// prepareGno builds the scratch module and returns its directory and the package pattern.
func prepareGno(repo string, t GnoTarget, overlay map[string][]byte) (string, string, error) {
	tmp, err := os.MkdirTemp("", "gocv-gno-")
	if err != nil {
		return "", "", err
	}
	if err := os.WriteFile(filepath.Join(tmp, "go.mod"), []byte("module "+gnoModule+"\n\ngo 1.22\n"), 0o644); err != nil {
		return tmp, "", err
	}
	shims := map[string]bool{}
	err = filepath.Walk(gnoShimRoot, func(p string, info os.FileInfo, err error) error {
		if err != nil || info.IsDir() || !strings.HasSuffix(p, ".go") {
			return err
		}
		rel, _ := filepath.Rel(gnoShimRoot, p)
		shims[filepath.Dir(rel)] = true
		dst := filepath.Join(tmp, rel)
		os.MkdirAll(filepath.Dir(dst), 0o755)
		b, err := os.ReadFile(p)
		if err != nil {
			return err
		}
		return os.WriteFile(dst, b, 0o644)
	})
	if err != nil {
		return tmp, "", err
	}
	src := filepath.Join(repo, t.PkgDir)
	ents, err := os.ReadDir(src)
	if err != nil {
		return tmp, "", err
	}
	dstDir := filepath.Join(tmp, t.PkgDir)
	os.MkdirAll(dstDir, 0o755)
	pkgName := ""
	for _, e := range ents {
		n := e.Name()
		if e.IsDir() || !strings.HasSuffix(n, ".gno") || strings.HasSuffix(n, "_test.gno") || strings.HasSuffix(n, "_filetest.gno") {
			continue
		}
		b, err := os.ReadFile(filepath.Join(src, n))
		if err != nil {
			return tmp, "", err
		}
		if ov, ok := overlay[filepath.Join(src, n)]; ok {
			b = ov // a modified source supplied by the must-fail corpus
		}
		text := string(b)
		if m := regexp.MustCompile(`(?m)^package\s+(\w+)`).FindStringSubmatch(text); m != nil && pkgName == "" {
			pkgName = m[1]
		}
		// rewrite import paths only inside the import declaration(s)
		text = rewriteImports(text, shims)
		if err := os.WriteFile(filepath.Join(dstDir, strings.TrimSuffix(n, ".gno")+".go"), []byte(text), 0o644); err != nil {
			return tmp, "", err
		}
	}
	if pkgName == "" {
		return tmp, "", fmt.Errorf("no .gno files in %s", src)
	}
	builtins := fmt.Sprintf("package %s\n\nimport \"%s/gnobuiltin\"\n\n// Gno predeclared types.\ntype address = gnobuiltin.Address\ntype realm = gnobuiltin.Realm\n", pkgName, gnoModule)
	if err := os.WriteFile(filepath.Join(dstDir, "zz_gno_builtins.go"), []byte(builtins), 0o644); err != nil {
		return tmp, "", err
	}
	return tmp, "./" + t.PkgDir, nil
}

func rewriteImports(text string, shims map[string]bool) string {
	end := strings.Index(text, "\nfunc ")
	if i := strings.Index(text, "\ntype "); i >= 0 && (end < 0 || i < end) {
		end = i
	}
	if i := strings.Index(text, "\nvar "); i >= 0 && (end < 0 || i < end) {
		end = i
	}
	if i := strings.Index(text, "\nconst "); i >= 0 && (end < 0 || i < end) {
		end = i
	}
	if end < 0 {
		end = len(text)
	}
	head := reImportPath.ReplaceAllStringFunc(text[:end], func(line string) string {
		m := reImportPath.FindStringSubmatch(line)
		if shims[m[2]] {
			return m[1] + "\"" + gnoModule + "/" + m[2] + "\""
		}
		return line
	})
	head = strings.Replace(head, "import \"chain\"", "import \""+gnoModule+"/chain\"", 1)
	return head + text[end:]
}

// inRepoPath: packages whose bodies may be inlined when they have no contract —
// the repository itself and the scratch module of the Gno front end.
func inRepoPath(path string) bool {
	return strings.HasPrefix(path, repoModule) || strings.HasPrefix(path, gnoModule+"/")
}
