package main

import (
	"fmt"
	"go/types"

	"golang.org/x/tools/go/ssa"
)

// Iteration over a map (`for k, v := range m`): ssa.Range / ssa.Next.
//
// Go delivers every entry present throughout the loop exactly once, in an unspecified order.
// The set of keys already delivered is kept as a pseudo heap component RV_<n> (Array K Bool,
// n the ordinal of the range statement in the function), so that loop headers havoc it like
// any other loop-carried state and invariants can speak about it through the spec built-in
// visited(k). A step either delivers a key that is present and was not delivered before, or
// ends the iteration - and then, if the loop does not write to maps of that type, every
// present key has been delivered.

func rangeComp(x *ssa.Range) string {
	n := 0
	for _, b := range x.Parent().Blocks {
		for _, in := range b.Instrs {
			if r, ok := in.(*ssa.Range); ok {
				n++
				if r == x {
					return fmt.Sprintf("RV_%d", n)
				}
			}
		}
	}
	return "RV_0"
}

func (fx *fexec) rangeStart(x *ssa.Range, st *State) Val {
	vc := fx.vc
	m, ok := vc.under(x.X.Type()).(*types.Map)
	if !ok {
		panic(engErr("range over a string is outside the subset"))
	}
	comp := rangeComp(x)
	srt := arraySort(vc.sortOf(m.Key()), SBool)
	vc.compSort[comp] = srt
	vc.heapSet(st, comp, Term{fmt.Sprintf("((as const %s) false)", srt), srt})
	vc.note("map iteration: every entry present throughout the loop is delivered exactly once, in an unspecified order (language specification)")
	return fx.val(x.X)
}

func (fx *fexec) rangeNext(x *ssa.Next, st *State) Val {
	vc := fx.vc
	r, isRange := x.Iter.(*ssa.Range)
	if x.IsString || !isRange {
		panic(engErr("range over a string is outside the subset"))
	}
	m := vc.under(r.X.Type()).(*types.Map)
	mv := fx.val(r)
	comp := rangeComp(r)
	ks := vc.sortOf(m.Key())
	srt := arraySort(ks, SBool)
	pcomp, vcomp, vsort, _, _ := vc.mapComps(m)
	psort := vc.compSort[pcomp]
	visited := vc.heapGet(st, comp, srt)
	okT := vc.fresh(x.Name()+"_ok", SBool)
	kT := vc.fresh(x.Name()+"_k", ks)
	kt := vc.resolve(m.Key())
	vc.assert(vc.typeInv(kT, kt, st.alloc))
	present := func(k Term) Term {
		return and(not(eq(mv.T, intLit(0))), sel(sel(vc.heapGet(st, pcomp, psort), mv.T), k))
	}
	vc.assert(implies(okT, and(present(kT), not(sel(visited, kT)))))
	// does the loop write to maps of this type?
	written := true
	for _, li := range fx.loops {
		// the outermost loop around the step decides (there the whole iteration lives)
		if li.body[x.Block()] {
			ms := fx.loopModifies(li, nil)
			if _, w := ms.comps[pcomp]; w {
				written = true
				break
			}
			written = false
		}
	}
	if !written {
		vc.ctr["qv"]++
		q := Term{"q_rk!" + itoa(vc.ctr["qv"]), ks}
		body := implies(present(q), sel(visited, q))
		vc.assert(implies(not(okT), Term{"(forall ((" + q.S + " " + ks + ")) " + body.S + ")", SBool}))
	}
	vc.heapSet(st, comp, ite(okT, store(visited, kT, tTrue), visited))
	et := vc.resolve(m.Elem())
	vT := vc.define(x.Name()+"_v", sel(sel(vc.heapGet(st, vcomp, vsort), mv.T), kT))
	vc.assert(implies(okT, vc.typeInv(vT, et, st.alloc)))
	return Val{Ty: x.Type(), Tup: []Val{
		{Ty: types.Typ[types.Bool], T: okT},
		{Ty: kt, T: kT},
		{Ty: et, T: vT},
	}}
}

// visitedTerm is the spec built-in visited(k): key k has been delivered by the (only) map
// iteration of the function.
func (sc *SpecCtx) visitedTerm(k Val) (Term, bool) {
	vc := sc.vc
	comp := ""
	for c := range vc.compSort {
		if len(c) > 3 && c[:3] == "RV_" {
			if comp != "" && comp != c {
				return Term{}, false
			}
			comp = c
		}
	}
	if comp == "" {
		return Term{}, false
	}
	return sel(vc.heapGet(sc.st, comp, vc.compSort[comp]), k.T), true
}

// sortStrings models sort.Strings(s): the elements are permuted in place and end up in
// increasing order.
func (fx *fexec) sortStrings(x *ssa.Call, args []Val, st *State) Val {
	vc := fx.vc
	sv := args[0]
	vc.note("extern sort.Strings: permutes the slice in place into increasing order (assumed from its documentation)")
	comp, srt := vc.elemComp(types.Typ[types.String])
	h := vc.heapGet(st, comp, srt)
	old := sel(h, sArr(sv.T))
	na := vc.fresh("sortarr", arrayElemSort(srt))
	vc.ctr["qv"]++
	n := itoa(vc.ctr["qv"])
	perm, inv := "sortperm!"+n, "sortinv!"+n
	vc.declUF(perm, "(Int) Int")
	vc.declUF(inv, "(Int) Int")
	k := Term{"q_k!" + n, SInt}
	off := sOff(sv.T)
	in := func(t Term) Term { return and(le(intLit(0), t), lt(t, sLen(sv.T))) }
	pk, ik := app(SInt, perm, k), app(SInt, inv, k)
	body := implies(in(k), and(in(pk), eq(sel(na, add(off, k)), sel(old, add(off, pk))), in(ik), eq(sel(na, add(off, ik)), sel(old, add(off, k))),
		eq(app(SInt, perm, ik), k), eq(app(SInt, inv, pk), k)))
	vc.assert(Term{"(forall ((" + k.S + " Int)) " + body.S + ")", SBool})
	k2 := Term{"q_k2!" + n, SInt}
	out := implies(not(and(le(off, k2), lt(k2, add(off, sLen(sv.T))))), eq(sel(na, k2), sel(old, k2)))
	vc.assert(Term{"(forall ((" + k2.S + " Int)) " + out.S + ")", SBool})
	// increasing order
	a, b := Term{"q_sa!" + n, SInt}, Term{"q_sb!" + n, SInt}
	le2 := func(x, y Term) Term {
		if vc.strSMT {
			return app(SBool, "str.<=", x, y)
		}
		return le(x, y)
	}
	ord := implies(and(le(intLit(0), a), lt(a, b), lt(b, sLen(sv.T))), le2(sel(na, add(off, a)), sel(na, add(off, b))))
	vc.assert(Term{"(forall ((" + a.S + " Int) (" + b.S + " Int)) " + ord.S + ")", SBool})
	vc.heapSet(st, comp, store(h, sArr(sv.T), na))
	return Val{Ty: vc.resolve(x.Type())}
}
