package main

import (
	"bytes"
	"context"
	"encoding/json"
	"fmt"
	"go/types"
	"os"
	"os/exec"
	"path/filepath"
	"regexp"
	"strings"
	"time"
)

// runOverlayTest injects src as an in-package test file of pkgDir (relative to
// repo) via `go test -overlay` — nothing is written into the repository — and runs it.
func runOverlayTest(repo, pkgDir, src, run string) (string, bool) {
	tmp, err := os.MkdirTemp("", "gocv-replay-")
	if err != nil {
		return err.Error(), false
	}
	defer os.RemoveAll(tmp)
	tf := filepath.Join(tmp, "zz_gocv_replay_test.go")
	if err := os.WriteFile(tf, []byte(src), 0o644); err != nil {
		return err.Error(), false
	}
	ov := map[string]map[string]string{"Replace": {filepath.Join(repo, pkgDir, "zz_gocv_replay_test.go"): tf}}
	ob, _ := json.Marshal(ov)
	of := filepath.Join(tmp, "overlay.json")
	os.WriteFile(of, ob, 0o644)
	ctx, cancel := context.WithTimeout(context.Background(), 300*time.Second)
	defer cancel()
	cmd := exec.CommandContext(ctx, "go", "test", "-overlay", of, "-vet=off", "-count=1", "-timeout", "60s", "-run", "^"+run+"$", "-v", "./"+pkgDir+"/")
	cmd.Dir = repo
	cmd.Env = cleanGoEnv()
	var out bytes.Buffer
	cmd.Stdout = &out
	cmd.Stderr = &out
	err = cmd.Run()
	return out.String(), err == nil
}

// runWitness runs the committed witness test of a known finding; it passes
// exactly when the defect still manifests on the real code.
func runWitness(k *KnownFinding, repo string) (bool, string) {
	if k.Witness == "" {
		return false, "no witness recorded"
	}
	src, err := os.ReadFile(filepath.Join(verifRoot, "known", k.Witness))
	if err != nil {
		return false, err.Error()
	}
	out, ok := runOverlayTest(repo, k.WitnessPkg, string(src), k.WitnessRun)
	return ok, out
}

var reModelPair = regexp.MustCompile(`\((in_[A-Za-z0-9_.$!#]+)\s+((?:\(- \d+\))|\d+|true|false)\)`)

func parseScalarModel(out string) map[string]string {
	m := map[string]string{}
	for _, mm := range reModelPair.FindAllStringSubmatch(out, -1) {
		v := mm[2]
		if strings.HasPrefix(v, "(- ") {
			v = "-" + strings.TrimSuffix(v[3:], ")")
		}
		m[mm[1]] = v
	}
	return m
}

var panicKinds = map[string]bool{"panic": true, "bounds": true, "nil": true, "div0": true, "slice": true, "callpanic": true, "assert-type": true, "makelen": true, "shift": true}

// replayModel turns a solver model over scalar inputs into a Go test against the real function.
func replayModel(e *Engine, rf *replayFile, v *violation, repo string) {
	vc := v.vc
	c := vc.contract
	if c == nil || strings.HasPrefix(c.Name, "lemma.") {
		return
	}
	fn := e.findFunc(c.Pkg, c.Name)
	if fn == nil {
		return
	}
	model := parseScalarModel(v.obl.Model)
	sig := fn.Signature
	scalar := sig.Recv() == nil
	for _, p := range fn.Params {
		b, isBasic := vc.resolve(p.Type()).Underlying().(*types.Basic)
		if !isBasic || b.Info()&(types.IsInteger|types.IsBoolean) == 0 {
			scalar = false
		}
	}
	for _, p := range fn.Params {
		if isBV(vc.sortOf(vc.resolve(p.Type()))) {
			scalar = false // bit-vector model values (#x…) are read by the general replay
		}
	}
	if !scalar {
		heapReplay(e, rf, v, repo, fn)
		return
	}
	var args []string
	for _, p := range fn.Params {
		t := vc.resolve(p.Type())
		val, ok := model["in_"+smtQuote(p.Name())]
		if !ok {
			return
		}
		b, isBasic := t.Underlying().(*types.Basic)
		if !isBasic || b.Info()&(types.IsInteger|types.IsBoolean) == 0 {
			return
		}
		ts := types.TypeString(t, func(p *types.Package) string {
			if p == fn.Pkg.Pkg {
				return ""
			}
			return p.Name()
		})
		if strings.Contains(ts, ".") {
			return
		}
		if b.Info()&types.IsBoolean != 0 {
			args = append(args, val)
		} else {
			args = append(args, fmt.Sprintf("%s(%s)", ts, val))
		}
		rf.Inputs = append(rf.Inputs, p.Name()+"="+val)
	}
	nres := sig.Results().Len()
	var lhs []string
	for i := 0; i < nres; i++ {
		lhs = append(lhs, fmt.Sprintf("r%d", i))
	}
	call := fmt.Sprintf("%s(%s)", fn.Name(), strings.Join(args, ", "))
	var body strings.Builder
	if nres > 0 {
		body.WriteString("\t" + strings.Join(lhs, ", ") + " := " + call + "\n")
		body.WriteString("\tfmt.Printf(\"GOCV-RESULT:")
		for i := range lhs {
			fmt.Fprintf(&body, " r%d=%%v", i)
		}
		body.WriteString("\\n\", " + strings.Join(lhs, ", ") + ")\n")
	} else {
		body.WriteString("\t" + call + "\n\tfmt.Println(\"GOCV-RESULT:\")\n")
	}
	src := fmt.Sprintf(`package %s

import (
	"fmt"
	"testing"
)

func TestGocvReplay(t *testing.T) {
	defer func() {
		if r := recover(); r != nil {
			fmt.Printf("GOCV-PANIC: %%v\n", r)
		}
	}()
%s}
`, fn.Pkg.Pkg.Name(), body.String())
	pkgDir := strings.TrimPrefix(c.Pkg, repoModule+"/")
	rf.TestPkg, rf.TestSrc = pkgDir, src
	rf.TestCmd = "/verif/bin/check --replay <this file>"
	out, _ := runOverlayTest(repo, pkgDir, src, "TestGocvReplay")
	panicked := strings.Contains(out, "GOCV-PANIC:")
	var resLine string
	for _, l := range strings.Split(out, "\n") {
		if strings.HasPrefix(l, "GOCV-RESULT:") || strings.HasPrefix(l, "GOCV-PANIC:") {
			resLine = l
		}
	}
	rf.Observed = resLine
	if resLine == "" {
		rf.Observed = "replay did not run: " + firstLines(out, 5)
		return
	}
	switch {
	case panicKinds[v.obl.Kind]:
		rf.Confirmed = panicked
	case v.obl.Kind == "nopanic":
		rf.Confirmed = !panicked
	case v.obl.Kind == "post":
		if panicked {
			return
		}
		// pin inputs and observed scalar results, re-ask the solver
		var pins []string
		for k, val := range model {
			pins = append(pins, fmt.Sprintf("(assert (= %s %s))", k, smtNum(val)))
		}
		obs := map[string]string{}
		for _, f := range strings.Fields(strings.TrimPrefix(resLine, "GOCV-RESULT:")) {
			kv := strings.SplitN(f, "=", 2)
			if len(kv) == 2 {
				obs[kv[0]] = kv[1]
			}
		}
		for i, rt := range vc.retTerms {
			o, ok := obs[fmt.Sprintf("r%d", i)]
			if !ok || (rt.Sort != SInt && rt.Sort != SBool) {
				return
			}
			pins = append(pins, fmt.Sprintf("(assert (= %s %s))", rt.S, smtNum(o)))
		}
		q := vc.smtFor(v.obl, false)
		q = strings.Replace(q, "(check-sat)", strings.Join(pins, "\n")+"\n(check-sat)", 1)
		tmp, _ := os.CreateTemp("", "gocv-confirm-*.smt2")
		tmp.WriteString(q)
		tmp.Close()
		defer os.Remove(tmp.Name())
		r := race(tmp.Name(), 5, 20)
		rf.Confirmed = r.result == "sat"
	}
}

func smtNum(s string) string {
	if strings.HasPrefix(s, "-") {
		return "(- " + s[1:] + ")"
	}
	return s
}
