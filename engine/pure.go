package main

import (
	"go/types"
	"strings"
)

// pureApp models a call of a function/method marked `pure` as an uninterpreted
// function of its arguments. For every slice reachable through the argument
// values (directly or through struct fields) the current contents of its backing
// array are passed as well, so the result depends on what the callee can read
// through value arguments. Pointer arguments contribute only the reference
// (a pure function must not read through pointers unless the contract says
// `reads` — not supported: such functions are not declared pure).
func (vc *VC) pureApp(key string, args []Val, rt types.Type, heapOf func(comp, srt string) Term) Term {
	ufn := "pure_" + smtQuote(shortKey(key))
	var sig []string
	var ts []Term
	var addContents func(v Term, t types.Type)
	addContents = func(v Term, t types.Type) {
		switch u := vc.under(t).(type) {
		case *types.Slice:
			comp, srt := vc.elemComp(u.Elem())
			c := sel(heapOf(comp, srt), sArr(v))
			sig = append(sig, c.Sort)
			ts = append(ts, c)
		case *types.Struct:
			for i := 0; i < u.NumFields(); i++ {
				addContents(vc.getField(v, t, i), u.Field(i).Type())
			}
		}
	}
	for _, a := range args {
		if a.T.S == "" {
			panic(engErr("pure function " + key + " applied to a non-term argument"))
		}
		sig = append(sig, a.T.Sort)
		ts = append(ts, a.T)
		addContents(a.T, a.Ty)
	}
	rs := vc.sortOf(rt)
	vc.declUF(ufn, "("+strings.Join(sig, " ")+") "+rs)
	vc.note("pure function " + shortKey(key) + " modelled as an uninterpreted function of its arguments and of the contents of the slices they hold")
	return app(rs, ufn, ts...)
}

// methodKey returns the contract key of method name on type t ("" if t is unnamed).
func methodKey(t types.Type, name string) string {
	if p, ok := t.(*types.Pointer); ok {
		t = p.Elem()
	}
	switch n := t.(type) {
	case *types.Named:
		if n.Obj().Pkg() == nil {
			return n.Obj().Name() + "." + name
		}
		return n.Obj().Pkg().Path() + "." + n.Obj().Name() + "." + name
	case *types.Alias:
		return methodKey(types.Unalias(t), name)
	}
	return ""
}
