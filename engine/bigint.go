package main

import (
	"go/types"

	"golang.org/x/tools/go/ssa"
)

// math/big.Int is modelled by a ghost heap component BIG : ref -> mathematical
// integer, with exact semantics for the methods below (assumed contracts of the
// standard library, including the in-place behaviour of z.Op(x, y) and Go's
// Euclidean Div). Anything else on big.Int is outside the subset.
const bigComp = "BIG_Int"

var bigSort = arraySort(SInt, SInt)

func isBigInt(t types.Type) bool {
	n, ok := t.(*types.Named)
	return ok && n.Obj().Pkg() != nil && n.Obj().Pkg().Path() == "math/big" && n.Obj().Name() == "Int"
}

func (vc *VC) bigVal(st *State, ref Term) Term {
	return sel(vc.heapGet(st, bigComp, bigSort), ref)
}

func (vc *VC) bigSet(st *State, ref, v Term) {
	vc.heapSet(st, bigComp, store(vc.heapGet(st, bigComp, bigSort), ref, v))
}

func (fx *fexec) bigModel(key string, x *ssa.Call, args []Val, st *State, pos string) (Val, bool) {
	vc := fx.vc
	rt := vc.resolve(x.Type())
	nonNil := func(vs ...Val) {
		for _, v := range vs {
			fx.panicPoint(st, eq(v.T, intLit(0)), "nil", "nil *big.Int", pos)
		}
	}
	note := func() {
		vc.note("extern math/big.Int: exact integer semantics of NewInt/Set/SetInt64/Add/Sub/Mul/Div (Euclidean)/Cmp/IsInt64/Int64/Sign/Neg (assumed contracts)")
	}
	bin := func(f func(a, b Term) Term) (Val, bool) {
		note()
		nonNil(args[0], args[1], args[2])
		v := vc.define("big", f(vc.bigVal(st, args[1].T), vc.bigVal(st, args[2].T)))
		vc.bigSet(st, args[0].T, v)
		return Val{Ty: rt, T: args[0].T}, true
	}
	switch key {
	case "math/big.NewInt":
		note()
		ref := st.alloc
		st.alloc = vc.define("alloc", add(st.alloc, intLit(1)))
		vc.bigSet(st, ref, vc.toInt(args[0]))
		return Val{Ty: rt, T: ref}, true
	case "math/big.Int.Add":
		return bin(add)
	case "math/big.Int.Sub":
		return bin(sub)
	case "math/big.Int.Mul":
		return bin(mul)
	case "math/big.Int.Div":
		note()
		nonNil(args[0], args[1], args[2])
		fx.panicPoint(st, eq(vc.bigVal(st, args[2].T), intLit(0)), "div0", "big.Int.Div by zero", pos)
		v := vc.define("big", app(SInt, "div", vc.bigVal(st, args[1].T), vc.bigVal(st, args[2].T)))
		vc.bigSet(st, args[0].T, v)
		return Val{Ty: rt, T: args[0].T}, true
	case "math/big.Int.Set":
		note()
		nonNil(args[0], args[1])
		vc.bigSet(st, args[0].T, vc.bigVal(st, args[1].T))
		return Val{Ty: rt, T: args[0].T}, true
	case "math/big.Int.SetInt64":
		note()
		nonNil(args[0])
		vc.bigSet(st, args[0].T, vc.toInt(args[1]))
		return Val{Ty: rt, T: args[0].T}, true
	case "math/big.Int.Neg":
		note()
		nonNil(args[0], args[1])
		vc.bigSet(st, args[0].T, sub(intLit(0), vc.bigVal(st, args[1].T)))
		return Val{Ty: rt, T: args[0].T}, true
	case "math/big.Int.Cmp":
		note()
		nonNil(args[0], args[1])
		a, b := vc.bigVal(st, args[0].T), vc.bigVal(st, args[1].T)
		return Val{Ty: rt, T: vc.define(x.Name(), vc.fromInt(ite(lt(a, b), intLit(-1), ite(eq(a, b), intLit(0), intLit(1))), rt))}, true
	case "math/big.Int.Sign":
		note()
		nonNil(args[0])
		a := vc.bigVal(st, args[0].T)
		return Val{Ty: rt, T: vc.define(x.Name(), vc.fromInt(ite(lt(a, intLit(0)), intLit(-1), ite(eq(a, intLit(0)), intLit(0), intLit(1))), rt))}, true
	case "math/big.Int.IsInt64":
		note()
		nonNil(args[0])
		a := vc.bigVal(st, args[0].T)
		ii := intInfo{64, true}
		return Val{Ty: rt, T: vc.define(x.Name(), and(le(bigLit(ii.lo()), a), le(a, bigLit(ii.hi()))))}, true
	case "math/big.Int.Int64":
		note()
		nonNil(args[0])
		a := vc.bigVal(st, args[0].T)
		return Val{Ty: rt, T: vc.define(x.Name(), vc.fromInt(wrapInt(a, 64, true), rt))}, true
	}
	return Val{}, false
}
