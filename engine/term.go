package main

import (
	"fmt"
	"math/big"
	"strings"
)

// Term is an SMT-LIB term with its sort. Terms are kept small by naming
// intermediate results with define-fun in the script (see script.go).
type Term struct {
	S    string
	Sort string
}

const (
	SInt   = "Int"
	SBool  = "Bool"
	SReal  = "Real" // ordered abstraction of Go strings (see DESIGN 2.2)
	SSlice = "Slice"
)

var (
	tTrue  = Term{"true", SBool}
	tFalse = Term{"false", SBool}
)

func (t Term) IsTrue() bool  { return t.S == "true" }
func (t Term) IsFalse() bool { return t.S == "false" }

func app(sort, op string, args ...Term) Term {
	var b strings.Builder
	b.WriteByte('(')
	b.WriteString(op)
	for _, a := range args {
		b.WriteByte(' ')
		b.WriteString(a.S)
	}
	b.WriteByte(')')
	return Term{b.String(), sort}
}

func intLit(v int64) Term { return bigLit(big.NewInt(v)) }

func bigLit(v *big.Int) Term {
	if v.Sign() < 0 {
		return Term{"(- " + new(big.Int).Neg(v).String() + ")", SInt}
	}
	return Term{v.String(), SInt}
}

func bvLit(v *big.Int, w int) Term {
	m := new(big.Int).Lsh(big.NewInt(1), uint(w))
	x := new(big.Int).Mod(v, m)
	return Term{fmt.Sprintf("(_ bv%s %d)", x.String(), w), bvSort(w)}
}

func bvSort(w int) string { return fmt.Sprintf("(_ BitVec %d)", w) }

func isBV(sort string) bool { return strings.HasPrefix(sort, "(_ BitVec ") }

func bvWidth(sort string) int {
	var w int
	fmt.Sscanf(sort, "(_ BitVec %d)", &w)
	return w
}

func boolLit(b bool) Term {
	if b {
		return tTrue
	}
	return tFalse
}

func and(ts ...Term) Term {
	var out []Term
	for _, t := range ts {
		if t.IsFalse() {
			return tFalse
		}
		if t.IsTrue() {
			continue
		}
		out = append(out, t)
	}
	if len(out) == 0 {
		return tTrue
	}
	if len(out) == 1 {
		return out[0]
	}
	return app(SBool, "and", out...)
}

func or(ts ...Term) Term {
	var out []Term
	for _, t := range ts {
		if t.IsTrue() {
			return tTrue
		}
		if t.IsFalse() {
			continue
		}
		out = append(out, t)
	}
	if len(out) == 0 {
		return tFalse
	}
	if len(out) == 1 {
		return out[0]
	}
	return app(SBool, "or", out...)
}

func not(t Term) Term {
	if t.IsTrue() {
		return tFalse
	}
	if t.IsFalse() {
		return tTrue
	}
	if strings.HasPrefix(t.S, "(not ") {
		return Term{t.S[5 : len(t.S)-1], SBool}
	}
	return app(SBool, "not", t)
}

func implies(a, b Term) Term {
	if a.IsTrue() {
		return b
	}
	if a.IsFalse() || b.IsTrue() {
		return tTrue
	}
	return app(SBool, "=>", a, b)
}

func eq(a, b Term) Term {
	if a.S == b.S {
		return tTrue
	}
	return app(SBool, "=", a, b)
}

func ite(c, a, b Term) Term {
	if c.IsTrue() {
		return a
	}
	if c.IsFalse() {
		return b
	}
	if a.S == b.S {
		return a
	}
	if a.Sort == SBool {
		if a.IsTrue() && b.IsFalse() {
			return c
		}
		if a.IsFalse() && b.IsTrue() {
			return not(c)
		}
	}
	return app(a.Sort, "ite", c, a, b)
}

func sel(arr, idx Term) Term {
	return app(arrayElemSort(arr.Sort), "select", arr, idx)
}

func store(arr, idx, v Term) Term {
	return app(arr.Sort, "store", arr, idx, v)
}

func arraySort(idx, elem string) string { return "(Array " + idx + " " + elem + ")" }

// arrayElemSort returns the element sort of "(Array I E)".
func arrayElemSort(s string) string {
	if !strings.HasPrefix(s, "(Array ") {
		panic("not an array sort: " + s)
	}
	body := s[len("(Array ") : len(s)-1]
	// skip index sort
	i := skipSort(body, 0)
	return strings.TrimSpace(body[i:])
}

func arrayIdxSort(s string) string {
	body := s[len("(Array ") : len(s)-1]
	i := skipSort(body, 0)
	return strings.TrimSpace(body[:i])
}

func skipSort(s string, i int) int {
	for i < len(s) && s[i] == ' ' {
		i++
	}
	if i < len(s) && s[i] == '(' {
		d := 0
		for ; i < len(s); i++ {
			if s[i] == '(' {
				d++
			} else if s[i] == ')' {
				d--
				if d == 0 {
					return i + 1
				}
			}
		}
		return i
	}
	for i < len(s) && s[i] != ' ' {
		i++
	}
	return i
}

// integer helpers (Int sort)
func litOf(t Term) (*big.Int, bool) {
	if t.Sort != SInt {
		return nil, false
	}
	s := t.S
	neg := false
	if len(s) > 4 && s[0] == '(' && s[1] == '-' && s[2] == ' ' && s[len(s)-1] == ')' {
		neg = true
		s = s[3 : len(s)-1]
	}
	for _, c := range s {
		if c < '0' || c > '9' {
			return nil, false
		}
	}
	if s == "" {
		return nil, false
	}
	v, ok := new(big.Int).SetString(s, 10)
	if !ok {
		return nil, false
	}
	if neg {
		v.Neg(v)
	}
	return v, true
}

func add(a, b Term) Term {
	x, xo := litOf(a)
	y, yo := litOf(b)
	switch {
	case xo && yo:
		return bigLit(new(big.Int).Add(x, y))
	case xo && x.Sign() == 0:
		return b
	case yo && y.Sign() == 0:
		return a
	}
	return app(SInt, "+", a, b)
}

func sub(a, b Term) Term {
	x, xo := litOf(a)
	y, yo := litOf(b)
	switch {
	case xo && yo:
		return bigLit(new(big.Int).Sub(x, y))
	case yo && y.Sign() == 0:
		return a
	}
	return app(SInt, "-", a, b)
}

func mul(a, b Term) Term {
	x, xo := litOf(a)
	y, yo := litOf(b)
	if xo && yo {
		return bigLit(new(big.Int).Mul(x, y))
	}
	return app(SInt, "*", a, b)
}

func cmpLit(a, b Term, f func(int) bool) (Term, bool) {
	x, xo := litOf(a)
	y, yo := litOf(b)
	if xo && yo {
		return boolLit(f(x.Cmp(y))), true
	}
	return Term{}, false
}

func le(a, b Term) Term {
	if t, ok := cmpLit(a, b, func(c int) bool { return c <= 0 }); ok {
		return t
	}
	return app(SBool, "<=", a, b)
}

func lt(a, b Term) Term {
	if t, ok := cmpLit(a, b, func(c int) bool { return c < 0 }); ok {
		return t
	}
	return app(SBool, "<", a, b)
}

func ge(a, b Term) Term {
	if t, ok := cmpLit(a, b, func(c int) bool { return c >= 0 }); ok {
		return t
	}
	return app(SBool, ">=", a, b)
}

func gt(a, b Term) Term {
	if t, ok := cmpLit(a, b, func(c int) bool { return c > 0 }); ok {
		return t
	}
	return app(SBool, ">", a, b)
}

// tdiv is Go's truncated division on mathematical integers (b != 0).
func tdiv(a, b Term) Term {
	return ite(ge(a, intLit(0)), app(SInt, "div", a, b), app(SInt, "-", app(SInt, "div", app(SInt, "-", a), b)))
}

func tmod(a, b Term) Term {
	return sub(a, mul(b, tdiv(a, b)))
}

func pow2(n int) *big.Int { return new(big.Int).Lsh(big.NewInt(1), uint(n)) }

// wrapInt wraps exact integer e into the range of a w-bit (un)signed type.
func wrapInt(e Term, w int, signed bool) Term {
	m := bigLit(pow2(w))
	if !signed {
		return app(SInt, "mod", e, m)
	}
	h := bigLit(pow2(w - 1))
	return sub(app(SInt, "mod", add(e, h), m), h)
}

func smtQuote(name string) string {
	// produce a legal simple symbol
	var b strings.Builder
	for _, r := range name {
		switch {
		case r >= 'a' && r <= 'z', r >= 'A' && r <= 'Z', r >= '0' && r <= '9', r == '_', r == '.', r == '!', r == '$', r == '#':
			b.WriteRune(r)
		default:
			b.WriteByte('_')
		}
	}
	return b.String()
}
