package main

import "strings"

// hasFreeBound reports whether the SMT text mentions a quantified variable
// (q_*) outside the scope of its own binder, or a formal parameter of a recursive
// spec function (p!*, h!*). Closed quantified formulas return false: they can be
// named by a global define-fun.
func hasFreeBound(s string) bool {
	for _, pre := range []string{"p!", "h!"} {
		for i := strings.Index(s, pre); i >= 0; {
			if i == 0 || s[i-1] == ' ' || s[i-1] == '(' {
				return true // a token starting with p! / h!: formal of a recursive spec function
			}
			j := strings.Index(s[i+1:], pre)
			if j < 0 {
				break
			}
			i += 1 + j
		}
	}
	if !strings.Contains(s, "q_") {
		return false
	}
	bound := map[string]bool{}
	var uses []string
	for i := 0; i < len(s); i++ {
		if s[i] != 'q' || i+1 >= len(s) || s[i+1] != '_' {
			continue
		}
		if i > 0 && s[i-1] != '(' && s[i-1] != ' ' {
			continue
		}
		j := i
		for j < len(s) && s[j] != ' ' && s[j] != '(' && s[j] != ')' {
			j++
		}
		name := s[i:j]
		if i > 0 && s[i-1] == '(' {
			bound[name] = true // binder position: (q_x Sort)
		} else {
			uses = append(uses, name)
		}
		i = j
	}
	for _, u := range uses {
		if !bound[u] {
			return true
		}
	}
	return false
}
