package main

import (
	"go/types"

	"golang.org/x/tools/go/ssa"
)

// aminoUnmarshal models amino.Unmarshal*(bz, ptr): the decoder does not validate
// field values, so after the call *ptr holds a value that is an uninterpreted
// function of the input bytes (any field values, any fresh objects behind its
// pointers) and the error result is unconstrained. Assumed, reported.
func (fx *fexec) aminoUnmarshal(key string, x *ssa.Call, args []Val, st *State, pos string) Val {
	vc := fx.vc
	rt := vc.resolve(x.Type())
	vc.note("extern " + shortKey(key) + ": the target receives an arbitrary decoded value (a function of the input bytes); decoding validates nothing")
	target, ok := vc.boxed[args[1].T.S]
	if !ok {
		panic(engErr("amino.Unmarshal into a value the engine cannot see through"))
	}
	pt, ok := vc.under(target.Ty).(*types.Pointer)
	if !ok {
		panic(engErr("amino.Unmarshal target is not a pointer"))
	}
	// decoded objects are new allocations
	st.alloc = vc.freshAlloc(st.alloc)
	heapOf := func(comp, srt string) Term { return vc.heapGet(st, comp, srt) }
	v := vc.pureApp("amino.decode."+mangle(typeKey(vc.resolve(pt.Elem()))), []Val{args[0]}, pt.Elem(), heapOf)
	v = vc.define("decoded", v)
	vc.assert(vc.typeInv(v, pt.Elem(), st.alloc))
	vc.storeLoc(st, vc.locOfPtr(target), v)
	e := vc.fresh("unmarshal_err", SInt)
	vc.assert(ge(e, intLit(0)))
	return Val{Ty: rt, T: e}
}
