package main

import (
	"go/types"

	"golang.org/x/tools/go/ssa"
)

// aminoUnmarshal models amino.Unmarshal*(bz, ptr): the decoder does not validate
// field values, so after the call *ptr holds a value that is an uninterpreted
// function of the input bytes (any field values, any fresh objects behind its
// pointers) and the error result is unconstrained. Assumed, reported.
func (fx *fexec) aminoUnmarshal(key string, x *ssa.Call, args []Val, st *State, pos string) Val {
	vc := fx.vc
	rt := vc.resolve(x.Type())
	vc.note("extern " + shortKey(key) + ": the target receives an arbitrary decoded value (a function of the input bytes); decoding validates nothing")
	target, ok := vc.boxed[args[1].T.S]
	if !ok {
		panic(engErr("amino.Unmarshal into a value the engine cannot see through"))
	}
	pt, ok := vc.under(target.Ty).(*types.Pointer)
	if !ok {
		panic(engErr("amino.Unmarshal target is not a pointer"))
	}
	// decoded objects are new allocations
	st.alloc = vc.freshAlloc(st.alloc)
	heapOf := func(comp, srt string) Term { return vc.heapGet(st, comp, srt) }
	v := vc.pureApp("amino.decode."+mangle(typeKey(vc.resolve(pt.Elem()))), []Val{args[0]}, pt.Elem(), heapOf)
	v = vc.define("decoded", v)
	vc.assert(vc.typeInv(v, pt.Elem(), st.alloc))
	vc.storeLoc(st, vc.locOfPtr(target), v)
	// whether decoding fails is a function of the input bytes too (spec: aminoFails(T, bz))
	e := vc.define("unmarshal_err", vc.pureApp("amino.err."+mangle(typeKey(vc.resolve(pt.Elem()))), []Val{args[0]}, types.Typ[types.Int], heapOf))
	vc.assert(ge(e, intLit(0)))
	return Val{Ty: rt, T: e}
}

// marshalRec remembers one amino.Marshal*(v) of this function: the value, its static type
// and the encoding as it was at that moment (a snapshot, so later writes do not matter).
type marshalRec struct {
	val Val
	arr Term // contents of the encoding
	off Term
	ln  Term
}

// aminoMarshal models amino.Marshal*/MustMarshal*(v): a fresh byte slice that is a function
// of the value, and — the part that carries information — two encodings of the same type
// that are equal byte for byte come from values whose integer, boolean, string and byte-slice
// components (through in-repo structs) are equal: amino decodes what it encodes (C19/C20's
// round trip, ASSUMED here). Nothing is concluded about foreign types such as time.Time,
// whose in-memory representation is not what is encoded.
func (fx *fexec) aminoMarshal(key string, x *ssa.Call, args []Val, st *State, must bool) Val {
	vc := fx.vc
	rt := vc.resolve(x.Type())
	st0 := rt
	if tup, ok := rt.(*types.Tuple); ok {
		st0 = vc.resolve(tup.At(0).Type())
	}
	byteT := vc.under(st0).(*types.Slice).Elem() // the result's own element type (byte vs uint8 name one component each)
	ln := vc.fresh("enclen", SInt)
	vc.assert(ge(ln, intLit(0)))
	vc.assert(le(ln, bigLit(pow2(40))))
	bz := vc.allocSlice(st, byteT, ln, ln, x.Name()+"_bz")
	comp, srt := vc.elemComp(byteT)
	h := vc.heapGet(st, comp, srt)
	enc := vc.fresh("encarr", arrayElemSort(srt))
	vc.heapSet(st, comp, store(h, sArr(bz.T), enc))
	vc.note("extern " + shortKey(key) + ": equal encodings of one type imply equal scalar/byte-slice components (amino round trip, assumed); the error result is arbitrary")
	if v, ok := vc.boxed[args[0].T.S]; ok {
		rec := marshalRec{val: v, arr: enc, off: sOff(bz.T), ln: ln}
		sc := &SpecCtx{vc: vc, st: st, old: st}
		for _, p := range vc.marshalled {
			if typeKey(vc.resolve(p.val.Ty)) != typeKey(vc.resolve(v.Ty)) {
				continue
			}
			vc.ctr["qv"]++
			k := Term{"q_k!" + itoa(vc.ctr["qv"]), SInt}
			same := and(eq(p.ln, rec.ln), Term{"(forall ((" + k.S + " Int)) " + implies(and(le(intLit(0), k), lt(k, rec.ln)),
				eq(sel(p.arr, add(p.off, k)), sel(rec.arr, add(rec.off, k)))).S + ")", SBool})
			vc.assert(implies(same, sc.deepEqEncoded(p.val, v, 0)))
		}
		vc.marshalled = append(vc.marshalled, rec)
	}
	if must {
		return Val{Ty: rt, T: bz.T}
	}
	e := vc.fresh("marshal_err", SInt)
	vc.assert(ge(e, intLit(0)))
	return Val{Ty: rt, Tup: []Val{{Ty: bz.Ty, T: bz.T}, {Ty: rt.(*types.Tuple).At(1).Type(), T: e}}}
}

// deepEqEncoded: equality of the components of two values of one type that an encoding pins down.
func (sc *SpecCtx) deepEqEncoded(a, b Val, depth int) Term {
	vc := sc.vc
	t := vc.resolve(a.Ty)
	if depth > 4 {
		return tTrue
	}
	switch u := t.Underlying().(type) {
	case *types.Basic:
		if u.Info()&(types.IsInteger|types.IsBoolean|types.IsString) != 0 {
			return eq(a.T, b.T)
		}
	case *types.Slice:
		if eb, ok := vc.under(u.Elem()).(*types.Basic); ok && eb.Kind() == types.Uint8 {
			return sc.bytesEqual(a, b).T
		}
	case *types.Struct:
		if nt, ok := t.(*types.Named); ok && (nt.Obj().Pkg() == nil || !inRepoPath(nt.Obj().Pkg().Path()+".x")) {
			return tTrue // foreign struct (time.Time, ...): its fields are not what is encoded
		}
		var cs []Term
		for i := 0; i < u.NumFields(); i++ {
			ft := u.Field(i).Type()
			cs = append(cs, sc.deepEqEncoded(Val{Ty: ft, T: vc.getField(a.T, t, i)}, Val{Ty: ft, T: vc.getField(b.T, t, i)}, depth+1))
		}
		return and(cs...)
	}
	return tTrue
}
