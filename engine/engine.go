package main

import (
	"fmt"
	"go/types"
	"math/big"
	"os"
	"path/filepath"
	"sort"
	"strings"

	"golang.org/x/tools/go/packages"
	"golang.org/x/tools/go/ssa"
	"golang.org/x/tools/go/ssa/ssautil"
)

type Engine struct {
	repo         string
	prog         *ssa.Program
	pkgs         map[string]*packages.Package
	ssaPkgs      map[string]*ssa.Package
	contracts    *ContractSet
	loadS        float64
	loadErrs     []string
	overlay      map[string][]byte
	known        []*KnownFinding
	ginfo        map[*ssa.Global]globalInfo
	usedLemmas   map[*Lemma]bool
	tier         string // "thorough": all cases of `split` clauses; otherwise the quick sample
	skippedCases int    // split cases left to the thorough tier
	neverCases   int    // split cases run in no tier (outside the `thorough` list): the split is incomplete
}

func newEngine(repo string) *Engine {
	return &Engine{repo: repo, pkgs: map[string]*packages.Package{}, ssaPkgs: map[string]*ssa.Package{}, contracts: newContractSet()}
}

// load type-checks the packages from /repo's working tree (build tag verif) and builds SSA.
func (e *Engine) load(patterns []string) error {
	cfg := &packages.Config{
		Mode:       packages.LoadAllSyntax,
		Dir:        e.repo,
		BuildFlags: []string{"-tags=verif"},
		Env:        cleanGoEnv(),
		Overlay:    e.overlay,
	}
	pkgs, err := packages.Load(cfg, patterns...)
	if err != nil {
		return err
	}
	var errs []string
	packages.Visit(pkgs, nil, func(p *packages.Package) {
		for _, e := range p.Errors {
			if inRepoPath(p.PkgPath) {
				errs = append(errs, e.Error())
			}
		}
		if strings.HasPrefix(p.PkgPath, repoModule) {
			// index repo packages only
		}
	})
	if len(errs) > 0 {
		e.loadErrs = errs
		return fmt.Errorf("package errors: %s", strings.Join(errs, "; "))
	}
	prog, _ := ssautil.AllPackages(pkgs, ssa.GlobalDebug|ssa.InstantiateGenerics)
	prog.Build()
	e.prog = prog
	packages.Visit(pkgs, nil, func(p *packages.Package) {
		e.pkgs[p.PkgPath] = p
		if sp := prog.Package(p.Types); sp != nil {
			e.ssaPkgs[p.PkgPath] = sp
		}
	})
	// contract files resident in the loaded repo packages
	var cerr error
	var paths []string
	for path := range e.pkgs {
		paths = append(paths, path)
	}
	sort.Strings(paths)
	for _, path := range paths {
		p := e.pkgs[path]
		if !inRepoPath(path) {
			continue
		}
		for _, f := range p.GoFiles {
			if filepath.Base(f) == "verif_contracts.go" && cerr == nil {
				cerr = e.contracts.loadContractFile(f, p.PkgPath)
			}
		}
	}
	return cerr
}

// cleanGoEnv is the environment for the go list sub-process: /repo needs the
// toolchain switch, so GOTOOLCHAIN=local and GOSUMDB=off must not be set.
func cleanGoEnv() []string {
	var env []string
	for _, kv := range os.Environ() {
		if strings.HasPrefix(kv, "GOTOOLCHAIN=") || strings.HasPrefix(kv, "GOSUMDB=") || strings.HasPrefix(kv, "GOFLAGS=") || strings.HasPrefix(kv, "GOPROXY=") {
			continue
		}
		env = append(env, kv)
	}
	env = append(env, "GOFLAGS=-mod=mod", "GOPROXY=off")
	return env
}

func (e *Engine) pkgTypes(path string, dflt *types.Package) *types.Package {
	if p, ok := e.pkgs[path]; ok {
		return p.Types
	}
	return dflt
}

// findFunc resolves "Func" or "Type.Method" in a package.
func (e *Engine) findFunc(pkgPath, name string) *ssa.Function {
	sp := e.ssaPkgs[pkgPath]
	if sp == nil {
		return nil
	}
	// "F__body": a second contract of F, verified against F's body but never used at call
	// sites (they see F's own — typically trusted, ghost-recording — contract)
	name = strings.TrimSuffix(name, "__body")
	if i := strings.Index(name, "."); i >= 0 {
		tn, mn := name[:i], name[i+1:]
		tm, ok := sp.Members[tn].(*ssa.Type)
		if !ok {
			return nil
		}
		t := tm.Type()
		for _, typ := range []types.Type{t, types.NewPointer(t)} {
			ms := e.prog.MethodSets.MethodSet(typ)
			for i := 0; i < ms.Len(); i++ {
				if ms.At(i).Obj().Name() == mn {
					fn := e.prog.MethodValue(ms.At(i))
					if fn != nil && fn.Synthetic == "" {
						return fn
					}
					if fn != nil && typ != t {
						// pointer wrapper of a value method: use the declared method
						if o, ok := ms.At(i).Obj().(*types.Func); ok {
							return e.prog.FuncValue(o)
						}
					}
				}
			}
		}
		return nil
	}
	fn, _ := sp.Members[name].(*ssa.Function)
	return fn
}

type FuncResult struct {
	Name     string
	Contract *Contract
	VCs      []*VC
	Err      string
}

// instantiations enumerates the type-parameter substitutions of a contract.
func (c *Contract) instantiations() []map[string]string {
	if len(c.InstOrder) == 0 {
		return []map[string]string{{}}
	}
	out := []map[string]string{{}}
	for _, tp := range c.InstOrder {
		var next []map[string]string
		for _, m := range out {
			for _, t := range c.Instantiate[tp] {
				n := map[string]string{}
				for k, v := range m {
					n[k] = v
				}
				n[tp] = t
				next = append(next, n)
			}
		}
		out = next
	}
	return out
}

func (e *Engine) verifyContract(c *Contract) *FuncResult {
	fr := &FuncResult{Name: c.Key(), Contract: c}
	fn := e.findFunc(c.Pkg, c.Name)
	if fn == nil {
		fr.Err = "binding: function " + c.Key() + " not found in /repo (renamed or removed?)"
		return fr
	}
	for _, inst := range c.instantiations() {
		name := shortKey(c.Key())
		if len(inst) > 0 {
			var ks []string
			for _, tp := range c.InstOrder {
				ks = append(ks, inst[tp])
			}
			name += "[" + strings.Join(ks, ",") + "]"
		}
		// complete case splits: one VC per combination of cases
		combos := [][]splitCase{nil}
		for _, sp := range c.Splits {
			var cases []splitCase
			cases = append(cases, splitCase{sp: sp, kind: "lt"})
			for v := sp.Lo; v <= sp.Hi; v++ {
				cases = append(cases, splitCase{sp: sp, kind: "eq", val: v})
			}
			cases = append(cases, splitCase{sp: sp, kind: "gt"})
			var next [][]splitCase
			for _, cb := range combos {
				for _, cs := range cases {
					next = append(next, append(append([]splitCase{}, cb...), cs))
				}
			}
			combos = next
		}
		for _, cb := range combos {
			cname := name
			skip, never := false, false
			for _, cs := range cb {
				cname += "{" + cs.String() + "}"
				if e.tier != "thorough" && !cs.inQuick() {
					skip = true
				}
				if !cs.inThorough() {
					skip = true
					never = true
				}
			}
			if never {
				e.neverCases++
				continue
			}
			if skip {
				e.skippedCases++
				continue
			}
			vc := newVC(e, cname, c)
			vc.splitCases = cb
			for k, v := range inst {
				tv, err := types.Eval(e.prog.Fset, nil, 0, v)
				if err != nil {
					fr.Err = "bad instantiation type " + v
					return fr
				}
				vc.subst[k] = tv.Type
			}
			e.verifyFunc(vc, fn, c)
			fr.VCs = append(fr.VCs, vc)
		}
	}
	return fr
}

// splitCase is one case of a `split` clause.
type splitCase struct {
	sp   *SplitSpec
	kind string // "eq", "lt" (below lo), "gt" (above hi)
	val  int64
}

func (c splitCase) String() string {
	switch c.kind {
	case "lt":
		return fmt.Sprintf("%s<%d", c.sp.Expr.Src, c.sp.Lo)
	case "gt":
		return fmt.Sprintf("%s>%d", c.sp.Expr.Src, c.sp.Hi)
	}
	return fmt.Sprintf("%s=%d", c.sp.Expr.Src, c.val)
}

// inQuick: cases run in the quick tier (all of them when no `quick` list is given).
func (c splitCase) inQuick() bool {
	if len(c.sp.Quick) == 0 {
		return true
	}
	if c.kind != "eq" {
		return false
	}
	for _, q := range c.sp.Quick {
		if q == c.val {
			return true
		}
	}
	return false
}

// inThorough: cases run in the thorough tier (all of them when no `thorough` list is given;
// the out-of-range cases always).
func (c splitCase) inThorough() bool {
	if len(c.sp.Thorough) == 0 || c.kind != "eq" {
		return true
	}
	for _, r := range c.sp.Thorough {
		if r[0] <= c.val && c.val <= r[1] {
			return true
		}
	}
	for _, q := range c.sp.Quick {
		if q == c.val {
			return true
		}
	}
	return false
}

func shortKey(k string) string {
	return strings.TrimPrefix(strings.TrimPrefix(k, repoModule+"/"), gnoModule+"/")
}

func (e *Engine) verifyFunc(vc *VC, fn *ssa.Function, c *Contract) {
	defer func() {
		if r := recover(); r != nil {
			if ee, ok := r.(engErr); ok {
				vc.errs = append(vc.errs, string(ee))
				return
			}
			panic(r)
		}
	}()
	pkg := fn.Pkg.Pkg
	vc.alloc0 = vc.fresh("alloc0", SInt)
	vc.assert(ge(vc.alloc0, intLit(1)))
	entry := &State{reach: tTrue, heap: map[string]Term{}, alloc: vc.alloc0}
	vc.entry = entry
	fx := vc.newExec(fn, c, 0)
	var args []Val
	vars := map[string]Val{}
	for _, p := range fn.Params {
		t := vc.resolve(p.Type())
		n := "in_" + smtQuote(p.Name())
		vc.emit(fmt.Sprintf("(declare-const %s %s)", n, vc.sortOf(t)))
		v := Val{Ty: t, T: Term{n, vc.sortOf(t)}}
		vc.assumeInv(v, vc.alloc0)
		vc.inputs = append(vc.inputs, n)
		args = append(args, v)
		vars[p.Name()] = v
	}
	sc := &SpecCtx{vc: vc, vars: vars, st: entry, old: entry, pkg: pkg}
	vc.entryVars = vars
	for _, r := range c.Requires {
		vc.assert(sc.evalBool(r.X))
	}
	for _, cs := range vc.splitCases {
		// this VC covers one case of a complete split (the cases are exhaustive by construction)
		v := sc.eval(cs.sp.Expr.X)
		var lit func(n int64) Term
		signed := true
		if isBV(v.T.Sort) {
			w := bvWidth(v.T.Sort)
			lit = func(n int64) Term { return bvLit(big.NewInt(n), w) }
			signed = sc.signedOf(v)
		} else {
			lit = func(n int64) Term { return intLit(n) }
		}
		cmp := func(op string, a, b Term) Term {
			if !isBV(a.Sort) {
				if op == "lt" {
					return lt(a, b)
				}
				return gt(a, b)
			}
			o := map[string]string{"lt": "bvslt", "gt": "bvsgt"}[op]
			if !signed {
				o = map[string]string{"lt": "bvult", "gt": "bvugt"}[op]
			}
			return app(SBool, o, a, b)
		}
		switch cs.kind {
		case "eq":
			vc.assert(eq(v.T, lit(cs.val)))
		case "lt":
			vc.assert(cmp("lt", v.T, lit(cs.sp.Lo)))
		case "gt":
			vc.assert(cmp("gt", v.T, lit(cs.sp.Hi)))
		}
	}
	for _, r := range c.AssumedPre {
		vc.note("ASSUMED (unchecked at call sites) precondition: " + r.Src)
		vc.assert(sc.evalBool(r.X))
	}
	vc.cover(entry, "cover", "precondition is satisfiable")
	for _, k := range e.known {
		if k.Function == c.Key() && k.x != nil {
			if vc.knownTerms == nil {
				vc.knownTerms = map[*KnownFinding]Term{}
			}
			vc.knownTerms[k] = vc.define("known_"+smtQuote(k.ID), sc.evalBool(k.x))
		}
	}
	var allowed Term = tFalse
	if c.PanicsIff != nil {
		allowed = vc.define("panic_allowed", sc.evalBool(c.PanicsIff.X))
	} else if c.MayPanic != nil {
		allowed = vc.define("panic_allowed", sc.evalBool(c.MayPanic.X))
	}
	vc.panicOK = func(ps *State) Term { return allowed }
	if len(c.OnPanic) > 0 {
		vc.onPanic = func(ps *State, what string) {
			psc := &SpecCtx{vc: vc, vars: vars, st: ps, old: entry, pkg: pkg}
			for i, cl := range c.OnPanic {
				vc.oblige(ps, "on_panic", fmt.Sprintf("on_panic #%d at %s: %s", i+1, what, cl.Src), psc.evalBool(cl.X))
			}
		}
	}
	exit, res := fx.run(entry.clone(), args)
	for _, r := range res {
		vc.retTerms = append(vc.retTerms, r.T)
	}
	post := &SpecCtx{vc: vc, vars: map[string]Val{}, st: exit, old: entry, pkg: pkg}
	for k, v := range vars {
		post.vars[k] = v
	}
	for i, ns := range resultNames(fn.Signature) {
		if i < len(res) {
			for _, n := range ns {
				post.vars[n] = res[i]
			}
		}
	}
	if !exit.reach.IsFalse() {
		for i, en := range c.Ensures {
			o := vc.oblige(exit, "post", fmt.Sprintf("ensures #%d: %s", i+1, en.Src), post.evalBool(en.X))
			o.Pos = fmt.Sprintf("%s:%d", shortPath(en.File), en.Line)
		}
		for _, en := range c.Assumed {
			vc.note("ASSUMED (unproved) postcondition in this function's contract, used by its callers: " + en.Src)
		}
		if c.PanicsIff != nil {
			vc.oblige(exit, "nopanic", "normal return implies !( "+c.PanicsIff.Src+" )", not(allowed))
		}
		// the frame is always checked: a contract without an `assigns` clause assigns
		// nothing that existed at entry (which is also what callers assume of it)
		e.frameObligations(vc, fx, sc, c, entry, exit)
		vc.cover(exit, "reach-exit", "the normal exit is reachable")
	} else if len(c.Ensures) > 0 {
		vc.errs = append(vc.errs, "no normal exit reachable but ensures clauses given")
	}
}

// frameObligations: every heap component modified on some path must be unchanged
// at all references that existed on entry and are not named in assigns.
func (e *Engine) frameObligations(vc *VC, fx *fexec, sc *SpecCtx, c *Contract, entry, exit *State) {
	// allowed targets per component
	allowed := map[string][]Term{}
	allowedAll := map[string]bool{}
	for _, a := range c.Assigns {
		switch a.X.K {
		case "cell":
			l := vc.locOfPtr(sc.eval(a.X.Args[0]))
			allowed[l.Comp] = append(allowed[l.Comp], l.Ref)
		case "allfield":
			st, path := sc.structField(a.X)
			comp, _ := vc.fieldComp(st, path)
			allowedAll[comp] = true
		case "ghost":
			allowed["GH_"+smtQuote(a.X.Op)] = append(allowed["GH_"+smtQuote(a.X.Op)], intLit(1))
		case "sel":
			base := sc.eval(a.X.Args[0])
			pt := vc.resolve(base.Ty).Underlying().(*types.Pointer)
			_, path := lookupFieldAnyPkg(pt.Elem(), a.X.Op)
			comp, _ := vc.fieldComp(pt.Elem(), path[0])
			allowed[comp] = append(allowed[comp], base.T)
		case "idx":
			s := sc.eval(a.X.Args[0])
			if mt, isMap := vc.under(s.Ty).(*types.Map); isMap {
				// m[*]: all entries of map m
				pc, vcmp, _, lc, _ := vc.mapComps(mt)
				for _, comp := range []string{pc, vcmp, lc} {
					allowed[comp] = append(allowed[comp], s.T)
				}
				continue
			}
			comp, _ := vc.elemComp(vc.under(s.Ty).(*types.Slice).Elem())
			allowed[comp] = append(allowed[comp], sArr(s.T))
		}
	}
	var comps []string
	for k := range exit.heap {
		comps = append(comps, k)
	}
	sort.Strings(comps)
	for _, comp := range comps {
		srt := vc.compSort[comp]
		now := exit.heap[comp]
		was := vc.heapGet(entry, comp, srt)
		if now.S == was.S || allowedAll[comp] || strings.HasPrefix(comp, "RV_") {
			continue // RV_: the delivered-keys set of a map iteration, not memory
		}
		r := Term{"q_fr", SInt}
		conds := []Term{lt(intLit(0), r), lt(r, vc.alloc0)}
		for _, t := range allowed[comp] {
			conds = append(conds, not(eq(r, t)))
		}
		body := implies(and(conds...), eq(sel(now, r), sel(was, r)))
		vc.oblige(exit, "assigns", "frame: "+comp+" unchanged outside the assigns clause", Term{"(forall ((q_fr Int)) " + body.S + ")", SBool})
	}
}

func (e *Engine) verifyLemma(l *Lemma) *VC {
	c := &Contract{Pkg: l.Pkg, Name: "lemma." + l.Name, Arith: l.Arith, Strings: l.Strings}
	vc := newVC(e, shortKey(l.Pkg)+".lemma:"+l.Name, c)
	defer func() {
		if r := recover(); r != nil {
			if ee, ok := r.(engErr); ok {
				vc.errs = append(vc.errs, string(ee))
				return
			}
			panic(r)
		}
	}()
	vc.alloc0 = vc.fresh("alloc0", SInt)
	vc.assert(ge(vc.alloc0, intLit(1)))
	entry := &State{reach: tTrue, heap: map[string]Term{}, alloc: vc.alloc0}
	vc.entry = entry
	sc := &SpecCtx{vc: vc, vars: map[string]Val{}, st: entry, old: entry, pkg: e.pkgTypes(l.Pkg, nil)}
	for _, p := range l.Params {
		t := sc.lookupType(p.Type)
		n := "in_" + smtQuote(p.Name)
		vc.emit(fmt.Sprintf("(declare-const %s %s)", n, vc.sortOf(t)))
		v := Val{Ty: t, T: Term{n, vc.sortOf(t)}}
		if !isUntypedInt(t) {
			vc.assumeInv(v, vc.alloc0)
		}
		vc.inputs = append(vc.inputs, n)
		sc.vars[p.Name] = v
	}
	for _, r := range l.Requires {
		vc.assert(sc.evalBool(r.X))
	}
	if l.Induct != "" {
		// induction hypothesis: for n > base the lemma holds at n-1 (other parameters unchanged)
		nv, ok := sc.vars[l.Induct]
		if !ok {
			vc.errs = append(vc.errs, "induction variable "+l.Induct+" is not a parameter")
			return vc
		}
		prev := map[string]Val{l.Induct: {Ty: nv.Ty, T: sub(nv.T, intLit(1))}}
		psc := sc.with(prev)
		var req, ens []Term
		for _, r := range l.Requires {
			req = append(req, psc.evalBool(r.X))
		}
		for _, en := range l.Ensures {
			ens = append(ens, psc.evalBool(en.X))
		}
		vc.assert(implies(gt(nv.T, intLit(l.From)), implies(and(req...), and(ens...))))
	}
	vc.cover(entry, "cover", "lemma hypotheses are satisfiable")
	for i, en := range l.Ensures {
		vc.oblige(entry, "lemma", fmt.Sprintf("lemma conclusion #%d: %s", i+1, en.Src), sc.evalBool(en.X))
	}
	return vc
}
