package main

import (
	"fmt"
	"go/constant"
	"go/token"
	"go/types"
	"math/big"
	"os"
	"sort"
	"strings"

	"golang.org/x/tools/go/ssa"
)

type exitRec struct {
	st  *State
	res []Val
}

type loopInfo struct {
	header  *ssa.BasicBlock
	ordinal int
	body    map[*ssa.BasicBlock]bool
	backs   []*ssa.BasicBlock // sources of back edges
}

// fexec executes one function body symbolically (top-level or inlined).
type fexec struct {
	vc      *VC
	fn      *ssa.Function
	env     map[ssa.Value]Val
	exits   []exitRec
	loops   map[*ssa.BasicBlock]*loopInfo
	spec    *Contract // contract providing loop invariants (nil when inlined without one)
	depth   int
	edgeSt  map[[2]int]*State
	params  map[string]Val // entry values by name
	entry   *State
	defers  []deferRec
	backFix map[*ssa.BasicBlock][]phiFix
	parent  *fexec
	// unrolling is set while the body of a `loop k unroll N` loop is being executed
	unrolling *unrollState
}

type deferRec struct {
	call *ssa.CallCommon
}

type phiFix struct{}

func (vc *VC) newExec(fn *ssa.Function, spec *Contract, depth int) *fexec {
	return &fexec{vc: vc, fn: fn, env: map[ssa.Value]Val{}, spec: spec, depth: depth, edgeSt: map[[2]int]*State{}, params: map[string]Val{}}
}

func (fx *fexec) posOf(i ssa.Instruction) string {
	p := i.Pos()
	if !p.IsValid() {
		return ""
	}
	pp := fx.fn.Prog.Fset.Position(p)
	return fmt.Sprintf("%s:%d", shortPath(pp.Filename), pp.Line)
}

func shortPath(p string) string { return strings.TrimPrefix(p, "/repo/") }

// findLoops computes natural loops and their source-order ordinals.
func findLoops(fn *ssa.Function) map[*ssa.BasicBlock]*loopInfo {
	loops := map[*ssa.BasicBlock]*loopInfo{}
	for _, b := range fn.Blocks {
		for _, s := range b.Succs {
			if s.Dominates(b) {
				li := loops[s]
				if li == nil {
					li = &loopInfo{header: s, body: map[*ssa.BasicBlock]bool{s: true}}
					loops[s] = li
				}
				li.backs = append(li.backs, b)
				// natural loop: nodes reaching b without passing s
				stack := []*ssa.BasicBlock{b}
				for len(stack) > 0 {
					n := stack[len(stack)-1]
					stack = stack[:len(stack)-1]
					if li.body[n] {
						continue
					}
					li.body[n] = true
					stack = append(stack, n.Preds...)
				}
			}
		}
	}
	var hs []*loopInfo
	for _, li := range loops {
		hs = append(hs, li)
	}
	posOf := func(li *loopInfo) token.Pos {
		best := token.NoPos
		for b := range li.body {
			for _, in := range b.Instrs {
				if _, ok := in.(*ssa.Phi); ok {
					continue
				}
				p := in.Pos()
				if p.IsValid() && (best == token.NoPos || p < best) {
					best = p
				}
			}
		}
		return best
	}
	sort.Slice(hs, func(i, j int) bool {
		pi, pj := posOf(hs[i]), posOf(hs[j])
		if pi != pj {
			return pi < pj
		}
		return hs[i].header.Index < hs[j].header.Index
	})
	for i, li := range hs {
		li.ordinal = i + 1
	}
	return loops
}

// topoOrder returns blocks in an order where all forward predecessors come first.
func topoOrder(fn *ssa.Function) []*ssa.BasicBlock {
	seen := map[*ssa.BasicBlock]bool{}
	var post []*ssa.BasicBlock
	var dfs func(b *ssa.BasicBlock)
	dfs = func(b *ssa.BasicBlock) {
		seen[b] = true
		for _, s := range b.Succs {
			if !seen[s] && !s.Dominates(b) {
				dfs(s)
			}
		}
		post = append(post, b)
	}
	dfs(fn.Blocks[0])
	for i, j := 0, len(post)-1; i < j; i, j = i+1, j-1 {
		post[i], post[j] = post[j], post[i]
	}
	return post
}

func (fx *fexec) val(v ssa.Value) Val {
	switch x := v.(type) {
	case *ssa.Const:
		return fx.constVal(x)
	case *ssa.Function:
		return Val{Ty: x.Type(), Fn: x}
	case *ssa.Global:
		comp, srt := fx.vc.cellComp(x.Type().(*types.Pointer).Elem())
		name := "G_" + smtQuote(x.Pkg.Pkg.Name()+"."+x.Name())
		ref := Term{name, SInt}
		if !fx.vc.uf[name] {
			fx.vc.uf[name] = true
			fx.vc.emit(fmt.Sprintf("(declare-const %s Int)", name))
			fx.vc.assert(and(lt(intLit(0), ref), lt(ref, fx.vc.alloc0)))
		}
		_ = comp
		_ = srt
		return Val{Ty: x.Type(), T: ref}
	case *ssa.Builtin:
		return Val{Ty: x.Type()}
	}
	if r, ok := fx.env[v]; ok {
		return r
	}
	panic(engErr(fmt.Sprintf("value %s (%T) not available in %s", v.Name(), v, fx.fn.Name())))
}

func (fx *fexec) constVal(c *ssa.Const) Val {
	vc := fx.vc
	t := vc.resolve(c.Type())
	if c.Value == nil {
		return Val{Ty: t, T: vc.zero(t)}
	}
	switch c.Value.Kind() {
	case constant.Bool:
		return Val{Ty: t, T: boolLit(constant.BoolVal(c.Value))}
	case constant.Int:
		bi, _ := new(big.Int).SetString(c.Value.ExactString(), 10)
		if b, ok := t.Underlying().(*types.Basic); ok && b.Info()&types.IsFloat != 0 {
			panic(engErr("float constant"))
		}
		return Val{Ty: t, T: vc.intConst(bi, t)}
	case constant.String:
		return Val{Ty: t, T: vc.strLit(constant.StringVal(c.Value))}
	}
	panic(engErr("unsupported constant " + c.String()))
}

// run executes the body from state st with parameters bound; returns merged normal exit.
func (fx *fexec) run(st *State, args []Val) (exit *State, results []Val) {
	fn := fx.fn
	if len(fn.Blocks) == 0 {
		panic(engErr("function without body: " + fn.String()))
	}
	for i, p := range fn.Params {
		fx.env[p] = args[i]
		fx.params[p.Name()] = args[i]
	}
	fx.entry = st.clone()
	fx.loops = findLoops(fn)
	order := topoOrder(fn)
	inOrder := map[*ssa.BasicBlock]bool{}
	for _, b := range order {
		inOrder[b] = true
	}
	done := map[*ssa.BasicBlock]bool{}
	for _, b := range order {
		if done[b] {
			continue // executed as part of an unrolled loop
		}
		var cur *State
		if b.Index == 0 {
			cur = st.clone()
		} else {
			cur = fx.mergeIncoming(b)
			if cur == nil {
				continue // unreachable
			}
		}
		if li := fx.loops[b]; li != nil {
			if ls := fx.loopSpec(li); ls != nil && ls.Unroll > 0 {
				fx.unrollLoop(li, ls.Unroll, cur, order, done)
				continue
			}
			cur = fx.enterLoop(li, cur)
		} else {
			fx.evalPhis(b, nil)
		}
		fx.execBlock(b, cur)
	}
	return fx.mergeExits()
}

func (fx *fexec) edgeKey(from, to *ssa.BasicBlock) [2]int { return [2]int{from.Index, to.Index} }

// mergeIncoming merges the states of the forward edges into b.
func (fx *fexec) mergeIncoming(b *ssa.BasicBlock) *State {
	var ins []*State
	for _, p := range b.Preds {
		if b.Dominates(p) && fx.loops[b] != nil {
			continue // back edge
		}
		if s, ok := fx.edgeSt[fx.edgeKey(p, b)]; ok && !s.reach.IsFalse() {
			ins = append(ins, s)
		}
	}
	if len(ins) == 0 {
		return nil
	}
	return fx.vc.mergeStates(ins, fmt.Sprintf("b%d", b.Index))
}

func (vc *VC) mergeStates(ins []*State, tag string) *State {
	if len(ins) == 1 {
		return ins[0].clone()
	}
	var rs []Term
	for _, s := range ins {
		rs = append(rs, s.reach)
	}
	out := &State{reach: vc.define("reach_"+tag, or(rs...)), heap: map[string]Term{}}
	comps := map[string]bool{}
	for _, s := range ins {
		for k := range s.heap {
			comps[k] = true
		}
	}
	var keys []string
	for k := range comps {
		keys = append(keys, k)
	}
	sort.Strings(keys)
	for _, k := range keys {
		srt := vc.compSort[k]
		v := vc.heapGet(ins[len(ins)-1], k, srt)
		for i := len(ins) - 2; i >= 0; i-- {
			v = ite(ins[i].reach, vc.heapGet(ins[i], k, srt), v)
		}
		out.heap[k] = vc.define(k, v)
	}
	a := ins[len(ins)-1].alloc
	for i := len(ins) - 2; i >= 0; i-- {
		a = ite(ins[i].reach, ins[i].alloc, a)
	}
	out.alloc = vc.define("alloc", a)
	return out
}

// evalPhis computes phi values of a non-header block from the forward edges.
func (fx *fexec) evalPhis(b *ssa.BasicBlock, _ *State) {
	for _, in := range b.Instrs {
		phi, ok := in.(*ssa.Phi)
		if !ok {
			break
		}
		type inc struct {
			c Term
			v Val
		}
		var incs []inc
		for i, p := range b.Preds {
			s, ok := fx.edgeSt[fx.edgeKey(p, b)]
			if !ok || s.reach.IsFalse() {
				continue
			}
			incs = append(incs, inc{s.reach, fx.val(phi.Edges[i])})
		}
		if len(incs) == 0 {
			continue
		}
		res := incs[len(incs)-1].v
		for i := len(incs) - 2; i >= 0; i-- {
			res = fx.vc.iteVal(incs[i].c, incs[i].v, res)
		}
		if res.T.S != "" {
			res.T = fx.vc.define(phi.Name(), res.T)
		}
		res.Ty = fx.vc.resolve(phi.Type())
		fx.env[phi] = res
	}
}

func (vc *VC) iteVal(c Term, a, b Val) Val {
	if len(a.Tup) > 0 {
		out := Val{Ty: a.Ty}
		for i := range a.Tup {
			out.Tup = append(out.Tup, vc.iteVal(c, a.Tup[i], b.Tup[i]))
		}
		return out
	}
	if a.View != nil || b.View != nil {
		panic(engErr("merge of slices of interior arrays is outside the subset"))
	}
	if a.Loc != nil || b.Loc != nil {
		if a.Loc != nil && b.Loc != nil && fmt.Sprint(*a.Loc) == fmt.Sprint(*b.Loc) {
			return a
		}
		panic(engErr("merge of interior pointers is outside the subset"))
	}
	if a.Fn != nil || b.Fn != nil {
		if a.Fn == b.Fn {
			return a
		}
		panic(engErr("merge of function values is outside the subset"))
	}
	return Val{Ty: a.Ty, T: ite(c, a.T, b.T)}
}

func (fx *fexec) mergeExits() (*State, []Val) {
	if len(fx.exits) == 0 {
		return &State{reach: tFalse, heap: map[string]Term{}, alloc: fx.entry.alloc}, nil
	}
	var ins []*State
	for _, e := range fx.exits {
		ins = append(ins, e.st)
	}
	st := fx.vc.mergeStates(ins, "exit")
	n := len(fx.exits[0].res)
	res := make([]Val, n)
	for k := 0; k < n; k++ {
		v := fx.exits[len(fx.exits)-1].res[k]
		for i := len(fx.exits) - 2; i >= 0; i-- {
			v = fx.vc.iteVal(fx.exits[i].st.reach, fx.exits[i].res[k], v)
		}
		if v.T.S != "" {
			v.T = fx.vc.define(fmt.Sprintf("ret%d", k), v.T)
		}
		res[k] = v
	}
	return st, res
}

// panicPoint records that execution panics at st when cond holds, and returns
// with st.reach restricted to the non-panicking case.
func (fx *fexec) panicPoint(st *State, cond Term, kind, text, pos string) {
	vc := fx.vc
	if cond.IsFalse() || st.reach.IsFalse() {
		return
	}
	ps := st.clone()
	ps.reach = vc.define("panic", and(st.reach, cond))
	allowed := tFalse
	if vc.panicOK != nil {
		allowed = vc.panicOK(ps)
	}
	o := vc.oblige(ps, kind, text, allowed)
	o.Pos = pos
	if vc.onPanic != nil {
		vc.onPanic(ps, kind+" "+text)
	}
	if cond.IsTrue() {
		st.reach = tFalse
	} else {
		st.reach = vc.define("reach", and(st.reach, not(cond)))
	}
}

func (fx *fexec) setEdge(from, to *ssa.BasicBlock, st *State) {
	fx.edgeSt[fx.edgeKey(from, to)] = st
}

func (fx *fexec) execBlock(b *ssa.BasicBlock, st *State) {
	for _, in := range b.Instrs {
		if st.reach.IsFalse() {
			// dead: still need edges to be absent
			return
		}
		switch x := in.(type) {
		case *ssa.Phi, *ssa.DebugRef:
			continue
		case *ssa.If:
			c := fx.val(x.Cond).T
			s0 := st.clone()
			s0.reach = fx.vc.define("reach", and(st.reach, c))
			s1 := st.clone()
			s1.reach = fx.vc.define("reach", and(st.reach, not(c)))
			fx.finishEdge(b, b.Succs[0], s0)
			fx.finishEdge(b, b.Succs[1], s1)
			return
		case *ssa.Jump:
			fx.finishEdge(b, b.Succs[0], st)
			return
		case *ssa.Return:
			var res []Val
			for _, r := range x.Results {
				res = append(res, fx.val(r))
			}
			fx.exits = append(fx.exits, exitRec{st.clone(), res})
			return
		case *ssa.Panic:
			fx.panicPoint(st, tTrue, "panic", "explicit panic", fx.posOf(x))
			return
		default:
			fx.execInstr(in, st)
		}
	}
}

// finishEdge records the state of edge from->to; a back edge checks the loop invariant.
func (fx *fexec) finishEdge(from, to *ssa.BasicBlock, st *State) {
	if u := fx.unrolling; u != nil && u.li.body[from] {
		if to == u.li.header {
			u.backs = append(u.backs, unrollEdge{from: from, to: to, st: st})
			return
		}
		if !u.li.body[to] {
			// leaving the unrolled loop: remember the state and the values defined so far
			u.exits = append(u.exits, unrollEdge{from: from, to: to, st: st, env: fx.snapshotEnv(u.li)})
			return
		}
	}
	if li := fx.loops[to]; li != nil && to.Dominates(from) {
		fx.backEdge(li, from, st)
		return
	}
	fx.setEdge(from, to, st)
}

func (fx *fexec) execInstr(in ssa.Instruction, st *State) {
	vc := fx.vc
	if debugLevel >= 2 {
		n := 0
		for _, s := range vc.script {
			n += len(s)
		}
		fmt.Fprintf(os.Stderr, "%s%s: %s  [script %d lines, %d bytes, reach %d bytes]\n", strings.Repeat("  ", fx.depth), fx.posOf(in), in.String(), len(vc.script), n, len(st.reach.S))
	}
	// a slice of an array that lives inside another object (a view) is modelled only as an
	// operand of copy and len
	for _, op := range in.Operands(nil) {
		if *op == nil {
			continue
		}
		if v, ok := fx.env[*op]; ok && v.View != nil {
			okUse := false
			if c, isCall := in.(*ssa.Call); isCall {
				if b, isB := c.Call.Value.(*ssa.Builtin); isB && (b.Name() == "copy" || b.Name() == "len") {
					okUse = true
				}
			}
			if !okUse {
				panic(engErr("slice of an interior array used other than by copy/len: " + in.String() + " at " + fx.posOf(in)))
			}
		}
	}
	switch x := in.(type) {
	case *ssa.BinOp:
		fx.env[x] = fx.binop(x, st)
	case *ssa.UnOp:
		fx.env[x] = fx.unop(x, st)
	case *ssa.Convert:
		fx.env[x] = fx.convert(x, st)
	case *ssa.MultiConvert:
		// conversion from/to a type parameter: a plain conversion once the type
		// parameter is substituted (the engine executes generic bodies per instance)
		v := fx.val(x.X)
		v.Ty = vc.resolve(v.Ty)
		fx.env[x] = vc.convertVal(st, v, vc.resolve(x.Type()), x.Name())
	case *ssa.ChangeType:
		v := fx.val(x.X)
		nt := vc.resolve(x.Type())
		if _, isStruct := vc.under(nt).(*types.Struct); isStruct && vc.sortOf(nt) != vc.sortOf(v.Ty) {
			u := vc.under(nt).(*types.Struct)
			var fs []Term
			for i := 0; i < u.NumFields(); i++ {
				fs = append(fs, vc.getField(v.T, v.Ty, i))
			}
			v.T = vc.mkStruct(nt, fs)
		}
		v.Ty = nt
		fx.env[x] = v
	case *ssa.Alloc:
		et := x.Type().(*types.Pointer).Elem()
		ref := st.alloc
		st.alloc = vc.define("alloc", add(st.alloc, intLit(1)))
		v := Val{Ty: vc.resolve(x.Type()), T: ref}
		if isBigInt(vc.resolve(et)) {
			vc.bigSet(st, ref, intLit(0)) // new(big.Int) is 0
		} else {
			vc.storeLoc(st, vc.locOfPtr(v), vc.zero(et))
		}
		fx.env[x] = v
	case *ssa.FieldAddr:
		base := fx.val(x.X)
		sty := vc.under(base.Ty).(*types.Pointer).Elem()
		if base.Loc == nil {
			if _, isAlloc := x.X.(*ssa.Alloc); !isAlloc {
				fx.panicPoint(st, eq(base.T, intLit(0)), "nil", "nil dereference "+x.X.Name()+"."+vc.under(sty).(*types.Struct).Field(x.Field).Name(), fx.posOf(x))
			}
		}
		l := vc.fieldLoc(base, sty, x.Field)
		fx.env[x] = Val{Ty: vc.resolve(x.Type()), Loc: l}
	case *ssa.Field:
		base := fx.val(x.X)
		fx.env[x] = Val{Ty: vc.resolve(x.Type()), T: vc.getField(base.T, base.Ty, x.Field)}
	case *ssa.IndexAddr:
		fx.env[x] = fx.indexAddr(x, st)
	case *ssa.Index:
		base := fx.val(x.X)
		idx := fx.asIndex(fx.val(x.Index))
		switch u := vc.under(base.Ty).(type) {
		case *types.Array:
			fx.panicPoint(st, or(lt(idx, intLit(0)), ge(idx, intLit(u.Len()))), "bounds", "array index "+x.Index.Name(), fx.posOf(x))
			fx.env[x] = Val{Ty: vc.resolve(x.Type()), T: sel(base.T, idx)}
		default:
			panic(engErr("Index on " + base.Ty.String()))
		}
	case *ssa.Store:
		addr := fx.val(x.Addr)
		v := fx.val(x.Val)
		if v.T.S == "" {
			panic(engErr("store of non-term value at " + fx.posOf(x)))
		}
		vc.storeLoc(st, vc.locOfPtr(addr), v.T)
	case *ssa.Slice:
		fx.env[x] = fx.sliceOp(x, st)
	case *ssa.MakeSlice:
		fx.env[x] = fx.makeSlice(x, st)
	case *ssa.Extract:
		t := fx.val(x.Tuple)
		fx.env[x] = t.Tup[x.Index]
	case *ssa.Range:
		fx.env[x] = fx.rangeStart(x, st)
	case *ssa.Next:
		fx.env[x] = fx.rangeNext(x, st)
	case *ssa.Call:
		fx.env[x] = fx.call(x, st)
	case *ssa.MakeInterface:
		fx.env[x] = fx.makeInterface(x, st)
	case *ssa.TypeAssert:
		fx.env[x] = fx.typeAssert(x, st)
	case *ssa.ChangeInterface:
		v := fx.val(x.X)
		v.Ty = vc.resolve(x.Type())
		fx.env[x] = v
	case *ssa.MakeClosure:
		var bind []Val
		for _, b := range x.Bindings {
			bind = append(bind, fx.val(b))
		}
		fx.env[x] = Val{Ty: x.Type(), Fn: x.Fn.(*ssa.Function), Bind: bind}
	case *ssa.Defer:
		if isIgnoredCall(&x.Call) {
			return
		}
		if mc, ok := x.Call.Value.(*ssa.MakeClosure); ok && closureIsNoop(mc.Fn.(*ssa.Function)) {
			return // e.g. defer func() { a.mtx.Unlock(); b.mtx.Unlock() }()
		}
		panic(engErr("defer of " + x.Call.String() + " is outside the subset"))
	case *ssa.RunDefers:
		return
	case *ssa.Go, *ssa.Send, *ssa.Select:
		panic(engErr("concurrency construct is outside the subset: " + in.String()))
	case *ssa.MakeMap:
		fx.env[x] = fx.makeMap(x, st)
	case *ssa.MapUpdate:
		fx.mapUpdate(x, st)
	case *ssa.Lookup:
		fx.env[x] = fx.lookup(x, st)
	default:
		panic(engErr(fmt.Sprintf("unsupported instruction %T: %s at %s", in, in.String(), fx.posOf(in))))
	}
}

// asIndex converts an integer Val to an Int term (indices are Int in both modes).
func (fx *fexec) asIndex(v Val) Term {
	return fx.vc.toInt(v)
}

func (vc *VC) toInt(v Val) Term {
	if isBV(v.T.Sort) {
		ii, _ := vc.intInfo(v.Ty)
		if ii.signed {
			w := ii.w
			u := app(SInt, "bv2nat", v.T)
			return ite(app(SBool, "bvslt", v.T, bvLit(big.NewInt(0), w)), sub(u, bigLit(pow2(w))), u)
		}
		return app(SInt, "bv2nat", v.T)
	}
	return v.T
}

func (fx *fexec) indexAddr(x *ssa.IndexAddr, st *State) Val {
	vc := fx.vc
	base := fx.val(x.X)
	idx := fx.asIndex(fx.val(x.Index))
	switch u := vc.under(base.Ty).(type) {
	case *types.Slice:
		fx.panicPoint(st, or(lt(idx, intLit(0)), ge(idx, sLen(base.T))), "bounds", "index "+x.Index.Name()+" of "+x.X.Name(), fx.posOf(x))
		comp, srt := vc.elemComp(u.Elem())
		// a compound index is named by a constant (not a macro) so that quantified facts
		// about s[i] can be instantiated by E-matching on (select (select E arr) (+ off i))
		rel := idx
		if _, isConst := constOf(idx); !isConst && strings.ContainsAny(idx.S, " (") {
			rel = vc.fresh("ix", SInt)
			vc.assert(eq(rel, idx))
		}
		return Val{Ty: vc.resolve(x.Type()), Loc: &Loc{Root: "E", Comp: comp, Sort: srt, Ref: sArr(base.T), Idx: add(sOff(base.T), rel), Ty: u.Elem()}}
	case *types.Pointer:
		at := vc.under(u.Elem()).(*types.Array)
		fx.panicPoint(st, or(lt(idx, intLit(0)), ge(idx, intLit(at.Len()))), "bounds", "array index "+x.Index.Name(), fx.posOf(x))
		if base.Loc == nil {
			if _, isAlloc := x.X.(*ssa.Alloc); !isAlloc {
				fx.panicPoint(st, eq(base.T, intLit(0)), "nil", "nil array pointer "+x.X.Name(), fx.posOf(x))
			}
		}
		l := *vc.locOfPtr(base)
		ix := idx
		l.Path = append(append([]Step{}, l.Path...), Step{Index: &ix, ArrTy: u.Elem()})
		l.Ty = at.Elem()
		return Val{Ty: vc.resolve(x.Type()), Loc: &l}
	}
	panic(engErr("IndexAddr on " + base.Ty.String()))
}

func (fx *fexec) sliceOp(x *ssa.Slice, st *State) Val {
	vc := fx.vc
	base := fx.val(x.X)
	var lo, hi, mx Term
	if x.Low != nil {
		lo = fx.asIndex(fx.val(x.Low))
	} else {
		lo = intLit(0)
	}
	switch u := vc.under(base.Ty).(type) {
	case *types.Slice:
		if x.High != nil {
			hi = fx.asIndex(fx.val(x.High))
		} else {
			hi = sLen(base.T)
		}
		cp := sCap(base.T)
		if x.Max != nil {
			mx = fx.asIndex(fx.val(x.Max))
			fx.panicPoint(st, not(and(le(intLit(0), lo), le(lo, hi), le(hi, mx), le(mx, cp))), "slice", "slice bounds of "+x.X.Name(), fx.posOf(x))
			cp = mx
		} else {
			fx.panicPoint(st, not(and(le(intLit(0), lo), le(lo, hi), le(hi, cp))), "slice", "slice bounds of "+x.X.Name(), fx.posOf(x))
		}
		res := mkSlice(sArr(base.T), add(sOff(base.T), lo), sub(hi, lo), sub(cp, lo))
		// slicing a nil slice [0:0] stays nil: arr==0 is preserved
		return Val{Ty: vc.resolve(x.Type()), T: vc.define(x.Name(), res)}
	case *types.Pointer:
		at := vc.under(u.Elem()).(*types.Array)
		if x.High != nil {
			hi = fx.asIndex(fx.val(x.High))
		} else {
			hi = intLit(at.Len())
		}
		fx.panicPoint(st, not(and(le(intLit(0), lo), le(lo, hi), le(hi, intLit(at.Len())))), "slice", "slice bounds of "+x.X.Name(), fx.posOf(x))
		// slicing an array through a pointer: materialise the array as a fresh backing store copy is wrong
		// (aliasing); only supported for freshly allocated local arrays that are no longer used directly.
		l := vc.locOfPtr(base)
		if l.Root != "C" || len(l.Path) != 0 {
			// an array inside another object: a view, usable by copy and len only
			if x.Max != nil {
				panic(engErr("three-index slice of an interior array is outside the subset"))
			}
			return Val{Ty: vc.resolve(x.Type()), View: &arrView{loc: l, lo: lo, n: vc.define(x.Name()+"_n", sub(hi, lo))}}
		}
		comp, srt := vc.elemComp(at.Elem())
		// move the array contents into the element heap under the same reference
		h := vc.heapGet(st, comp, srt)
		vc.heapSet(st, comp, store(h, base.T, vc.load(st, l)))
		vc.note("array sliced through pointer: contents moved to the element heap (later direct array access not modelled)")
		res := vc.define(x.Name(), mkSlice(base.T, lo, sub(hi, lo), sub(intLit(at.Len()), lo)))
		if n, ok := litOf(sub(hi, lo)); ok {
			if vc.constLens == nil {
				vc.constLens = map[string]int64{}
			}
			vc.constLens[res.S] = n.Int64()
		}
		return Val{Ty: vc.resolve(x.Type()), T: res}
	case *types.Basic:
		if u.Info()&types.IsString != 0 {
			return fx.stringSlice(x, base, lo, st)
		}
	}
	panic(engErr("Slice on " + base.Ty.String()))
}

func (fx *fexec) stringSlice(x *ssa.Slice, base Val, lo Term, st *State) Val {
	vc := fx.vc
	if !vc.strSMT {
		panic(engErr("string slicing needs 'strings smt'"))
	}
	ln := app(SInt, "str.len", base.T)
	hi := ln
	if x.High != nil {
		hi = fx.asIndex(fx.val(x.High))
	}
	fx.panicPoint(st, not(and(le(intLit(0), lo), le(lo, hi), le(hi, ln))), "slice", "string slice bounds", fx.posOf(x))
	return Val{Ty: base.Ty, T: vc.define(x.Name(), app("String", "str.substr", base.T, lo, sub(hi, lo)))}
}

func (fx *fexec) makeSlice(x *ssa.MakeSlice, st *State) Val {
	vc := fx.vc
	ln := fx.asIndex(fx.val(x.Len))
	cp := fx.asIndex(fx.val(x.Cap))
	fx.panicPoint(st, not(and(le(intLit(0), ln), le(ln, cp))), "makelen", "make length/capacity", fx.posOf(x))
	et := vc.under(x.Type()).(*types.Slice).Elem()
	return vc.allocSlice(st, et, ln, cp, x.Name())
}

// allocSlice allocates a fresh zeroed backing array.
func (vc *VC) allocSlice(st *State, et types.Type, ln, cp Term, name string) Val {
	ref := st.alloc
	st.alloc = vc.define("alloc", add(st.alloc, intLit(1)))
	comp, srt := vc.elemComp(et)
	h := vc.heapGet(st, comp, srt)
	inner := arrayElemSort(srt)
	zeroArr := Term{fmt.Sprintf("((as const %s) %s)", inner, vc.zero(et).S), inner}
	vc.heapSet(st, comp, store(h, ref, zeroArr))
	return Val{Ty: types.NewSlice(et), T: vc.define(name, mkSlice(ref, intLit(0), ln, cp))}
}

func (fx *fexec) binop(x *ssa.BinOp, st *State) Val {
	vc := fx.vc
	a, b := fx.val(x.X), fx.val(x.Y)
	rt := vc.resolve(x.Type())
	res := vc.binopVal(fx, st, x.Op, a, b, rt, fx.posOf(x), x.Name())
	return res
}

func (vc *VC) binopVal(fx *fexec, st *State, op token.Token, a, b Val, rt types.Type, pos, name string) Val {
	ot := vc.resolve(a.Ty)
	if isUntypedInt(ot) || ot == nil {
		ot = vc.resolve(b.Ty)
	}
	switch op {
	case token.EQL, token.NEQ:
		var t Term
		if _, isSlice := vc.under(ot).(*types.Slice); isSlice {
			// only comparison with nil is legal
			other := a
			if a.T.S == nilSlice.S {
				other = b
			}
			t = eq(sArr(other.T), intLit(0))
		} else {
			if a.T.S == "" || b.T.S == "" {
				panic(engErr("comparison of non-term values at " + pos))
			}
			t = eq(a.T, b.T)
		}
		if op == token.NEQ {
			t = not(t)
		}
		return Val{Ty: rt, T: t}
	}
	if ii, ok := vc.intInfo(ot); ok {
		if vc.bvType(ot) {
			return vc.bvBinop(fx, st, op, a, b, rt, ii, pos, name)
		}
		return vc.intBinop(fx, st, op, a, b, rt, ii, pos, name)
	}
	if bt, ok := vc.under(ot).(*types.Basic); ok && bt.Info()&types.IsString != 0 {
		if vc.strSMT {
			switch op {
			case token.ADD:
				return Val{Ty: rt, T: vc.define(name, app("String", "str.++", a.T, b.T))}
			case token.LSS:
				return Val{Ty: rt, T: app(SBool, "str.<", a.T, b.T)}
			case token.LEQ:
				return Val{Ty: rt, T: app(SBool, "str.<=", a.T, b.T)}
			case token.GTR:
				return Val{Ty: rt, T: app(SBool, "str.<", b.T, a.T)}
			case token.GEQ:
				return Val{Ty: rt, T: app(SBool, "str.<=", b.T, a.T)}
			}
		} else {
			switch op {
			case token.LSS:
				return Val{Ty: rt, T: lt(a.T, b.T)}
			case token.LEQ:
				return Val{Ty: rt, T: le(a.T, b.T)}
			case token.GTR:
				return Val{Ty: rt, T: gt(a.T, b.T)}
			case token.GEQ:
				return Val{Ty: rt, T: ge(a.T, b.T)}
			case token.ADD:
				// order abstraction: concatenation is an uninterpreted function of its operands
				vc.declUF("str.cat", "(Real Real) Real")
				r := vc.define(name, app(SReal, "str.cat", a.T, b.T))
				vc.assert(app(SBool, ">=", r, Term{"0.0", SReal}))
				vc.note("string concatenation abstracted to an uninterpreted function (order abstraction of strings)")
				return Val{Ty: rt, T: r}
			}
		}
	}
	if bt, ok := vc.under(ot).(*types.Basic); ok && bt.Info()&types.IsBoolean != 0 {
		switch op {
		case token.AND, token.LAND:
			return Val{Ty: rt, T: and(a.T, b.T)}
		case token.OR, token.LOR:
			return Val{Ty: rt, T: or(a.T, b.T)}
		}
	}
	panic(engErr(fmt.Sprintf("unsupported binary op %s on %s at %s", op, ot, pos)))
}

func (vc *VC) intBinop(fx *fexec, st *State, op token.Token, a, b Val, rt types.Type, ii intInfo, pos, name string) Val {
	mk := func(t Term) Val { return Val{Ty: rt, T: t} }
	arith := func(exact Term, what string) Val {
		if vc.wraps {
			return mk(vc.define(name, wrapInt(exact, ii.w, ii.signed)))
		}
		// named by a constant (not a macro): index arithmetic such as i+1 then stays
		// atomic inside select terms, which keeps E-matching of quantified facts working
		e := vc.nameInt(name, exact)
		o := vc.oblige(st, "overflow", what+" stays in "+typeKey(rt), and(le(bigLit(ii.lo()), e), le(e, bigLit(ii.hi()))))
		o.Pos = pos
		return mk(e)
	}
	switch op {
	case token.ADD:
		return arith(add(a.T, b.T), "addition")
	case token.SUB:
		return arith(sub(a.T, b.T), "subtraction")
	case token.MUL:
		return arith(mul(a.T, b.T), "multiplication")
	case token.QUO:
		fx.panicPoint(st, eq(b.T, intLit(0)), "div0", "division by zero", pos)
		q := tdiv(a.T, b.T)
		if ii.signed {
			return arith(q, "division")
		}
		return mk(vc.define(name, q))
	case token.REM:
		fx.panicPoint(st, eq(b.T, intLit(0)), "div0", "modulo by zero", pos)
		return mk(vc.define(name, tmod(a.T, b.T)))
	case token.LSS:
		return mk(lt(a.T, b.T))
	case token.LEQ:
		return mk(le(a.T, b.T))
	case token.GTR:
		return mk(gt(a.T, b.T))
	case token.GEQ:
		return mk(ge(a.T, b.T))
	case token.SHL, token.SHR:
		c, ok := constOf(b.T)
		if !ok {
			if op == token.SHL && b.T.Sort == SInt {
				// x << n over mathematical integers: x * pow2(n), with pow2 an
				// uninterpreted function axiomatised by pow2(0)=1, pow2(n)=2*pow2(n-1)
				if bi, okb := vc.intInfo(b.Ty); okb && bi.signed {
					fx.panicPoint(st, lt(b.T, intLit(0)), "shift", "negative shift count", pos)
				}
				p := vc.pow2Term(b.T)
				return mk(vc.define(name, ite(ge(b.T, intLit(int64(ii.w))), intLit(0), wrapInt(mul(a.T, p), ii.w, ii.signed))))
			}
			panic(engErr("variable shift needs 'arith bv' at " + pos))
		}
		if c.Sign() < 0 {
			fx.panicPoint(st, tTrue, "shift", "negative shift", pos)
			return mk(intLit(0))
		}
		n := int(c.Int64())
		if op == token.SHL {
			if n >= ii.w {
				return mk(intLit(0))
			}
			return mk(vc.define(name, wrapInt(mul(a.T, bigLit(pow2(n))), ii.w, ii.signed)))
		}
		if n >= ii.w {
			if ii.signed {
				return mk(ite(lt(a.T, intLit(0)), intLit(-1), intLit(0)))
			}
			return mk(intLit(0))
		}
		return mk(vc.define(name, app(SInt, "div", a.T, bigLit(pow2(n)))))
	case token.AND:
		if c, ok := constOf(b.T); ok && c.Sign() >= 0 {
			m := new(big.Int).Add(c, big.NewInt(1))
			if m.BitLen() > 0 && new(big.Int).And(m, c).Sign() == 0 { // c = 2^k-1
				return mk(vc.define(name, app(SInt, "mod", a.T, bigLit(m))))
			}
		}
	}
	// bitwise operators over mathematical integers: exact round trip through the
	// two's-complement bit-vector of the operand width (int2bv is "mod 2^w")
	if bop, ok := map[token.Token]string{token.AND: "bvand", token.OR: "bvor", token.XOR: "bvxor", token.AND_NOT: "bvandnot"}[op]; ok && a.T.Sort == SInt && b.T.Sort == SInt {
		srt := bvSort(ii.w)
		ab := Term{fmt.Sprintf("((_ int2bv %d) %s)", ii.w, a.T.S), srt}
		bb := Term{fmt.Sprintf("((_ int2bv %d) %s)", ii.w, b.T.S), srt}
		var r Term
		if bop == "bvandnot" {
			r = app(srt, "bvand", ab, app(srt, "bvnot", bb))
		} else {
			r = app(srt, bop, ab, bb)
		}
		nat := Term{"(bv2nat " + r.S + ")", SInt}
		if ii.signed {
			return mk(vc.define(name, ite(app(SBool, "bvslt", r, bvLit(big.NewInt(0), ii.w)), sub(nat, bigLit(pow2(ii.w))), nat)))
		}
		return mk(vc.define(name, nat))
	}
	panic(engErr(fmt.Sprintf("integer op %s needs 'arith bv' at %s", op, pos)))
}

func constOf(t Term) (*big.Int, bool) {
	s := t.S
	if strings.HasPrefix(s, "(_ bv") {
		// bit-vector literal (_ bvN w)
		f := strings.Fields(s[len("(_ bv"):])
		if len(f) == 2 {
			v, ok := new(big.Int).SetString(f[0], 10)
			return v, ok
		}
		return nil, false
	}
	neg := false
	if strings.HasPrefix(s, "(- ") && strings.HasSuffix(s, ")") {
		neg = true
		s = s[3 : len(s)-1]
	}
	v, ok := new(big.Int).SetString(s, 10)
	if !ok {
		return nil, false
	}
	if neg {
		v.Neg(v)
	}
	return v, true
}

func (fx *fexec) unop(x *ssa.UnOp, st *State) Val {
	vc := fx.vc
	v := fx.val(x.X)
	rt := vc.resolve(x.Type())
	switch x.Op {
	case token.NOT:
		return Val{Ty: rt, T: not(v.T)}
	case token.MUL:
		if g, isGlobal := x.X.(*ssa.Global); isGlobal {
			if gv, ok := fx.loadGlobal(g); ok {
				return gv
			}
		}
		if v.Loc == nil {
			if _, isAlloc := x.X.(*ssa.Alloc); !isAlloc {
				if _, isGlobal := x.X.(*ssa.Global); !isGlobal {
					fx.panicPoint(st, eq(v.T, intLit(0)), "nil", "nil dereference of "+x.X.Name(), fx.posOf(x))
				}
			}
		}
		l := vc.locOfPtr(v)
		t := vc.define(x.Name(), vc.load(st, l))
		res := Val{Ty: rt, T: t}
		vc.assert(vc.typeInv(t, rt, st.alloc))
		if h, ok := st.heap[l.Comp]; (!ok || h.S == l.Comp+"!0") && vc.hasRefs(rt) {
			// the entry heap is closed: an object that existed at entry only refers to
			// objects that existed at entry
			vc.assert(implies(lt(l.Ref, vc.alloc0), vc.typeInv(t, rt, vc.alloc0)))
		}
		return res
	case token.SUB:
		ii, ok := vc.intInfo(rt)
		if !ok {
			panic(engErr("negation of non-integer"))
		}
		if vc.bvType(rt) {
			return Val{Ty: rt, T: vc.define(x.Name(), app(v.T.Sort, "bvneg", v.T))}
		}
		e := sub(intLit(0), v.T)
		if vc.wraps || !ii.signed {
			return Val{Ty: rt, T: vc.define(x.Name(), wrapInt(e, ii.w, ii.signed))}
		}
		o := vc.oblige(st, "overflow", "negation stays in "+typeKey(rt), le(e, bigLit(ii.hi())))
		o.Pos = fx.posOf(x)
		return Val{Ty: rt, T: e}
	case token.XOR:
		ii, ok := vc.intInfo(rt)
		if !ok {
			panic(engErr("complement of non-integer"))
		}
		if vc.bvType(rt) {
			return Val{Ty: rt, T: vc.define(x.Name(), app(v.T.Sort, "bvnot", v.T))}
		}
		if ii.signed {
			return Val{Ty: rt, T: sub(sub(intLit(0), v.T), intLit(1))}
		}
		return Val{Ty: rt, T: sub(bigLit(ii.hi()), v.T)}
	}
	panic(engErr("unsupported unary op " + x.Op.String()))
}

func (fx *fexec) convert(x *ssa.Convert, st *State) Val {
	vc := fx.vc
	v := fx.val(x.X)
	rt := vc.resolve(x.Type())
	return vc.convertVal(st, v, rt, x.Name())
}

func (vc *VC) convertVal(st *State, v Val, rt types.Type, name string) Val {
	from, fok := vc.intInfo(v.Ty)
	to, tok := vc.intInfo(rt)
	if fok && tok {
		fbv, tbv := isBV(v.T.Sort), vc.bvType(rt)
		switch {
		case fbv && !tbv:
			// bit-vector to mathematical integer (then wrapped into the target type)
			x := vc.toInt(v)
			if from.lo().Cmp(to.lo()) >= 0 && from.hi().Cmp(to.hi()) <= 0 {
				return Val{Ty: rt, T: vc.define(name, x)}
			}
			return Val{Ty: rt, T: vc.define(name, wrapInt(x, to.w, to.signed))}
		case !fbv && tbv:
			if c, ok := constOf(v.T); ok {
				return Val{Ty: rt, T: bvLit(c, to.w)}
			}
			b := vc.nameBV(name, Term{fmt.Sprintf("((_ int2bv %d) %s)", to.w, v.T.S), bvSort(to.w)})
			if !hasFreeBound(v.T.S) {
				// bridge for the solvers: the bit-vector denotes x mod 2^w
				vc.assert(eq(app(SInt, "bv2nat", b), app(SInt, "mod", v.T, bigLit(pow2(to.w)))))
				if vc.bridged == nil {
					vc.bridged = map[string]bool{}
				}
				vc.bridged[b.S] = true
			}
			return Val{Ty: rt, T: b}
		}
		if fbv && tbv {
			switch {
			case from.w == to.w:
				return Val{Ty: rt, T: v.T}
			case from.w > to.w:
				return Val{Ty: rt, T: vc.define(name, Term{fmt.Sprintf("((_ extract %d 0) %s)", to.w-1, v.T.S), bvSort(to.w)})}
			case from.signed:
				return Val{Ty: rt, T: vc.define(name, Term{fmt.Sprintf("((_ sign_extend %d) %s)", to.w-from.w, v.T.S), bvSort(to.w)})}
			default:
				return Val{Ty: rt, T: vc.define(name, Term{fmt.Sprintf("((_ zero_extend %d) %s)", to.w-from.w, v.T.S), bvSort(to.w)})}
			}
		}
		if from.lo().Cmp(to.lo()) >= 0 && from.hi().Cmp(to.hi()) <= 0 {
			return Val{Ty: rt, T: v.T}
		}
		return Val{Ty: rt, T: vc.define(name, wrapInt(v.T, to.w, to.signed))}
	}
	if isUntypedInt(v.Ty) && tok {
		return Val{Ty: rt, T: v.T}
	}
	// string <-> []byte
	_, fromSlice := vc.under(v.Ty).(*types.Slice)
	_, toSlice := vc.under(rt).(*types.Slice)
	fb, fromStr := vc.under(v.Ty).(*types.Basic)
	tb, toStr := vc.under(rt).(*types.Basic)
	if fromStr && fb.Info()&types.IsString != 0 && toSlice {
		// []byte(s): fresh array whose content is determined by the string
		return vc.bytesOfString(st, v, rt, name)
	}
	if fromSlice && toStr && tb.Info()&types.IsString != 0 {
		return vc.stringOfBytes(st, v, rt, name)
	}
	if fromStr && toStr && fb.Info()&types.IsString != 0 && tb.Info()&types.IsString != 0 {
		return Val{Ty: rt, T: v.T}
	}
	if _, ok := vc.under(rt).(*types.Pointer); ok {
		return Val{Ty: rt, T: v.T, Loc: v.Loc}
	}
	panic(engErr("unsupported conversion " + v.Ty.String() + " -> " + rt.String()))
}

func (vc *VC) declUF(name, sig string) {
	if !vc.uf[name] {
		vc.uf[name] = true
		vc.emit(fmt.Sprintf("(declare-fun %s %s)", name, sig))
	}
}

// bytesOfString: []byte(s) is a fresh array equal to the uninterpreted
// byte sequence of s (bytes_of : Str -> Array Int Int, strlen : Str -> Int).
func (vc *VC) bytesOfString(st *State, v Val, rt types.Type, name string) Val {
	et := vc.under(rt).(*types.Slice).Elem()
	es := vc.sortOf(et)
	ssort := vc.sortOf(v.Ty)
	vc.declUF("str.bytes", fmt.Sprintf("(%s) (Array Int %s)", ssort, es))
	vc.declUF("str.length", fmt.Sprintf("(%s) Int", ssort))
	ln := app(SInt, "str.length", v.T)
	vc.assert(le(intLit(0), ln))
	res := vc.allocSlice(st, et, ln, ln, name)
	comp, srt := vc.elemComp(et)
	h := vc.heapGet(st, comp, srt)
	bytesOf := app(arraySort(SInt, es), "str.bytes", v.T)
	vc.heapSet(st, comp, store(h, sArr(res.T), bytesOf))
	res.Ty = rt
	// a literal: its length and bytes are known
	for lit, t := range vc.strLits {
		if t.S == v.T.S && len(lit) <= 64 {
			vc.assert(eq(ln, intLit(int64(len(lit)))))
			for i := 0; i < len(lit); i++ {
				vc.assert(eq(sel(bytesOf, intLit(int64(i))), vc.fromInt(intLit(int64(lit[i])), et)))
			}
			break
		}
	}
	// string([]byte(s)) == s
	back := vc.pureApp("string.ofbytes", []Val{res}, types.Typ[types.String], func(c, s string) Term { return vc.heapGet(st, c, s) })
	vc.assert(eq(back, v.T))
	return res
}

func (vc *VC) stringOfBytes(st *State, v Val, rt types.Type, name string) Val {
	// an uninterpreted function of the bytes (slice length and contents): equal byte
	// sequences give equal strings; nothing else is known about the string
	r := vc.define(name, vc.pureApp("string.ofbytes", []Val{v}, types.Typ[types.String], func(comp, srt string) Term { return vc.heapGet(st, comp, srt) }))
	vc.assert(vc.typeInv(r, rt, Term{}))
	vc.note("string([]byte): an uninterpreted function of the byte sequence")
	return Val{Ty: rt, T: r}
}

func isIgnoredCall(c *ssa.CallCommon) bool {
	if c.IsInvoke() {
		return false
	}
	f := c.StaticCallee()
	if f == nil {
		return false
	}
	return ignoredFuncs[funcKey(f)]
}

var ignoredFuncs = map[string]bool{
	"sync.Mutex.Lock": true, "sync.Mutex.Unlock": true,
	"sync.RWMutex.Lock": true, "sync.RWMutex.Unlock": true, "sync.RWMutex.RLock": true, "sync.RWMutex.RUnlock": true,
}

// funcKey returns "pkgpath.Func" or "pkgpath.Type.Method".
func funcKey(f *ssa.Function) string {
	if o := f.Origin(); o != nil {
		f = o
	}
	pkg := ""
	if f.Pkg != nil {
		pkg = f.Pkg.Pkg.Path()
	} else if f.Object() != nil && f.Object().Pkg() != nil {
		pkg = f.Object().Pkg().Path()
	}
	if recv := f.Signature.Recv(); recv != nil {
		t := recv.Type()
		if p, ok := t.(*types.Pointer); ok {
			t = p.Elem()
		}
		if n, ok := t.(*types.Named); ok {
			return pkg + "." + n.Obj().Name() + "." + f.Name()
		}
		if a, ok := t.(*types.Alias); ok {
			return pkg + "." + a.Obj().Name() + "." + f.Name()
		}
	}
	return pkg + "." + f.Name()
}
