package main

import (
	"context"
	"fmt"
	"go/types"
	"math/big"
	"os"
	"sort"
	"strconv"
	"strings"

	"golang.org/x/tools/go/ssa"
)

// Heap replay: when the inputs of a failed obligation include pointers, slices,
// structs or strings, the solver is asked for the values of the heap cells
// reachable from the parameters (bounded depth, slices of bounded length), the
// objects are rebuilt in an in-package Go test, and the real function is run on
// them. A replay that cannot be built (interfaces, maps, foreign unexported
// fields, longer slices) leaves the violation reported without a failing input.

const (
	hrMaxLen   = 8   // slice elements reconstructed
	hrMaxDepth = 4   // pointer/slice nesting
	hrMaxTerms = 600 // terms asked from the solver
)

type hrNode struct {
	kind  string // int bool string struct ptr slice array opaque
	ty    types.Type
	term  string    // scalar term (int, bool, string, ptr/opaque ref)
	kids  []*hrNode // struct fields, pointee (1), slice/array elements
	extra []string  // slice: arr, len, cap terms
	val   string    // model value of term
	xval  []string  // model values of extra
}

type hrPlan struct {
	vc       *VC
	declared map[string]bool
	ask      []string
	slot     map[string]int
	lenCons  []string
	fail     string
}

func (p *hrPlan) want(t string) {
	if _, ok := p.slot[t]; !ok {
		p.slot[t] = len(p.ask)
		p.ask = append(p.ask, t)
	}
}

// heapAt names the entry version of a heap component, or "" when the function
// never reads it (any value will do).
func (p *hrPlan) heapAt(comp string) string {
	n := comp + "!0"
	if p.declared[n] {
		return n
	}
	return ""
}

func (p *hrPlan) plan(term string, ty types.Type, depth int) *hrNode {
	vc := p.vc
	ty = vc.resolve(ty)
	if len(p.ask) > hrMaxTerms {
		p.fail = "too many heap cells"
		return &hrNode{kind: "opaque", ty: ty}
	}
	n := &hrNode{ty: ty, term: term}
	switch u := ty.Underlying().(type) {
	case *types.Basic:
		switch {
		case u.Info()&types.IsBoolean != 0:
			n.kind = "bool"
		case u.Info()&types.IsInteger != 0:
			n.kind = "int"
		case u.Info()&types.IsString != 0:
			n.kind = "string"
		default:
			n.kind = "opaque"
		}
		if term != "" {
			p.want(term)
		}
	case *types.Struct:
		n.kind = "struct"
		for i := 0; i < u.NumFields(); i++ {
			ft := ""
			if term != "" {
				ft = vc.getField(Term{term, vc.sortOf(ty)}, ty, i).S
			}
			n.kids = append(n.kids, p.plan(ft, u.Field(i).Type(), depth))
		}
	case *types.Array:
		n.kind = "array"
		if u.Len() > 64 {
			p.fail = "large array input"
			return n
		}
		for i := int64(0); i < u.Len(); i++ {
			et := ""
			if term != "" {
				et = fmt.Sprintf("(select %s %d)", term, i)
			}
			n.kids = append(n.kids, p.plan(et, u.Elem(), depth))
		}
	case *types.Pointer:
		n.kind = "ptr"
		if term == "" {
			return n
		}
		p.want(term)
		if depth >= hrMaxDepth {
			return n
		}
		elem := vc.resolve(u.Elem())
		if st, ok := elem.Underlying().(*types.Struct); ok {
			kid := &hrNode{kind: "struct", ty: elem}
			for i := 0; i < st.NumFields(); i++ {
				comp, _ := vc.fieldComp(elem, i)
				ft := ""
				if h := p.heapAt(comp); h != "" {
					ft = fmt.Sprintf("(select %s %s)", h, term)
				}
				kid.kids = append(kid.kids, p.plan(ft, st.Field(i).Type(), depth+1))
			}
			n.kids = []*hrNode{kid}
		} else {
			comp, _ := vc.cellComp(elem)
			ct := ""
			if h := p.heapAt(comp); h != "" {
				ct = fmt.Sprintf("(select %s %s)", h, term)
			}
			n.kids = []*hrNode{p.plan(ct, elem, depth+1)}
		}
	case *types.Slice:
		n.kind = "slice"
		if term == "" {
			return n
		}
		n.extra = []string{"(s.arr " + term + ")", "(s.len " + term + ")", "(s.cap " + term + ")"}
		for _, x := range n.extra {
			p.want(x)
		}
		p.lenCons = append(p.lenCons, fmt.Sprintf("(assert (<= (s.len %s) %d))", term, hrMaxLen), fmt.Sprintf("(assert (<= (s.cap %s) %d))", term, 2*hrMaxLen))
		if depth >= hrMaxDepth {
			return n
		}
		comp, _ := vc.elemComp(u.Elem())
		h := p.heapAt(comp)
		for i := 0; i < hrMaxLen; i++ {
			et := ""
			if h != "" {
				et = fmt.Sprintf("(select (select %s (s.arr %s)) (+ (s.off %s) %d))", h, term, term, i)
			}
			n.kids = append(n.kids, p.plan(et, u.Elem(), depth+1))
		}
	default:
		// interfaces, maps, channels, functions: only nil can be rebuilt
		n.kind = "opaque"
		if term != "" {
			p.want(term)
		}
	}
	return n
}

func (p *hrPlan) fill(n *hrNode, vals []string) {
	if n.term != "" {
		if i, ok := p.slot[n.term]; ok {
			n.val = vals[i]
		}
	}
	for _, x := range n.extra {
		n.xval = append(n.xval, vals[p.slot[x]])
	}
	for _, k := range n.kids {
		p.fill(k, vals)
	}
}

// parseGetValue splits the answer to (get-value (t1 ... tn)) into the n value texts.
func parseGetValue(out string) []string {
	i := strings.Index(out, "((")
	if i < 0 {
		return nil
	}
	s := out[i+1:]
	var vals []string
	pos := 0
	readSexp := func() string {
		for pos < len(s) && (s[pos] == ' ' || s[pos] == '\n' || s[pos] == '\t' || s[pos] == '\r') {
			pos++
		}
		if pos >= len(s) {
			return ""
		}
		start := pos
		switch s[pos] {
		case '(':
			d := 0
			for pos < len(s) {
				switch s[pos] {
				case '(':
					d++
				case ')':
					d--
				case '"':
					pos++
					for pos < len(s) && s[pos] != '"' {
						pos++
					}
				}
				pos++
				if d == 0 {
					break
				}
			}
		case '"':
			pos++
			for pos < len(s) {
				if s[pos] == '"' {
					if pos+1 < len(s) && s[pos+1] == '"' {
						pos += 2
						continue
					}
					break
				}
				pos++
			}
			pos++
		default:
			for pos < len(s) && !strings.ContainsRune(" \n\t\r()", rune(s[pos])) {
				pos++
			}
		}
		return s[start:pos]
	}
	for {
		for pos < len(s) && (s[pos] == ' ' || s[pos] == '\n' || s[pos] == '\t' || s[pos] == '\r') {
			pos++
		}
		if pos >= len(s) || s[pos] != '(' {
			break
		}
		pos++ // pair opens
		if readSexp() == "" {
			break
		}
		v := readSexp()
		for pos < len(s) && s[pos] != ')' {
			pos++
		}
		pos++
		vals = append(vals, strings.Join(strings.Fields(v), " "))
	}
	return vals
}

// smtInt reads an integer or bit-vector model value.
func smtInt(v string, signed bool, width int) (*big.Int, bool) {
	v = strings.TrimSpace(v)
	switch {
	case strings.HasPrefix(v, "#x") || strings.HasPrefix(v, "#b"):
		base, w := 16, 4*(len(v)-2)
		if v[1] == 'b' {
			base, w = 2, len(v)-2
		}
		n, ok := new(big.Int).SetString(v[2:], base)
		if !ok {
			return nil, false
		}
		if signed && n.Bit(w-1) == 1 {
			n.Sub(n, new(big.Int).Lsh(big.NewInt(1), uint(w)))
		}
		return n, true
	case strings.HasPrefix(v, "(- "):
		n, ok := new(big.Int).SetString(strings.TrimSuffix(strings.TrimSpace(v[3:]), ")"), 10)
		if !ok {
			return nil, false
		}
		return n.Neg(n), true
	}
	n, ok := new(big.Int).SetString(v, 10)
	return n, ok
}

type hrGen struct {
	vc      *VC
	pkg     *types.Package
	imports map[string]string // path -> name
	stmts   []string
	ptrs    map[string]string // type|ref -> variable
	strs    map[string]string // model value -> Go literal
	fail    string
	pins    []string
	approx  bool // some object was rebuilt as a zero value rather than from the model
}

func (g *hrGen) typeStr(t types.Type) string {
	return types.TypeString(t, func(p *types.Package) string {
		if p == g.pkg {
			return ""
		}
		g.imports[p.Path()] = p.Name()
		return p.Name()
	})
}

// constructible reports whether a composite literal of t can be written inside g.pkg.
func (g *hrGen) constructible(t types.Type) bool {
	ok := true
	var walk func(t types.Type, d int)
	walk = func(t types.Type, d int) {
		if d > 6 || !ok {
			return
		}
		if nt, isN := t.(*types.Named); isN {
			if nt.Obj().Pkg() != nil && nt.Obj().Pkg() != g.pkg && !nt.Obj().Exported() {
				ok = false
				return
			}
			if nt.TypeArgs() != nil && nt.TypeArgs().Len() > 0 {
				ok = false
				return
			}
		}
		if st, isS := t.Underlying().(*types.Struct); isS {
			foreign := false
			if nt, isN := t.(*types.Named); isN && nt.Obj().Pkg() != nil && nt.Obj().Pkg() != g.pkg {
				foreign = true
			}
			for i := 0; i < st.NumFields(); i++ {
				if foreign && !st.Field(i).Exported() {
					ok = false
					return
				}
			}
		}
	}
	walk(t, 0)
	return ok
}

func (g *hrGen) expr(n *hrNode) string {
	if g.fail != "" {
		return "nil"
	}
	vc := g.vc
	pin := func(term, val string) {
		if term != "" && val != "" {
			g.pins = append(g.pins, fmt.Sprintf("(assert (= %s %s))", term, val))
		}
	}
	switch n.kind {
	case "bool":
		if n.val == "" {
			return "false"
		}
		pin(n.term, n.val)
		return n.val
	case "int":
		if n.val == "" {
			return g.typeStr(n.ty) + "(0)"
		}
		ii, _ := vc.intInfo(n.ty)
		v, ok := smtInt(n.val, ii.signed, ii.w)
		if !ok {
			g.fail = "unreadable integer " + n.val
			return "0"
		}
		pin(n.term, n.val)
		return fmt.Sprintf("%s(%s)", g.typeStr(n.ty), v.String())
	case "string":
		if n.val == "" {
			return g.typeStr(n.ty) + `("")`
		}
		lit, ok := g.strs[n.val]
		if !ok {
			g.fail = "unreadable string " + n.val
			return `""`
		}
		pin(n.term, n.val)
		return fmt.Sprintf("%s(%s)", g.typeStr(n.ty), lit)
	case "struct":
		if !g.constructible(n.ty) {
			if nt, ok := n.ty.(*types.Named); ok && nt.Obj().Exported() && (nt.TypeArgs() == nil || nt.TypeArgs().Len() == 0) {
				if pp := nt.Obj().Pkg().Path(); pp != "sync" && pp != "sync/atomic" {
					g.approx = true // the model's field values are not reproduced
				}
				return g.typeStr(n.ty) + "{}" // foreign struct with unexported fields: its zero value
			}
			g.fail = "cannot build " + n.ty.String() + " from package " + g.pkg.Name()
			return "nil"
		}
		st := n.ty.Underlying().(*types.Struct)
		var fs []string
		for i, k := range n.kids {
			if st.Field(i).Name() == "_" {
				continue
			}
			fs = append(fs, st.Field(i).Name()+": "+g.expr(k))
		}
		return g.typeStr(n.ty) + "{" + strings.Join(fs, ", ") + "}"
	case "array":
		var es []string
		for _, k := range n.kids {
			es = append(es, g.expr(k))
		}
		return g.typeStr(n.ty) + "{" + strings.Join(es, ", ") + "}"
	case "ptr":
		ts := g.typeStr(n.ty)
		if n.val == "" {
			return "(" + ts + ")(nil)"
		}
		ref, ok := smtInt(n.val, true, 64)
		if !ok {
			g.fail = "unreadable reference " + n.val
			return "nil"
		}
		pin(n.term, n.val)
		if ref.Sign() == 0 {
			return "(" + ts + ")(nil)"
		}
		key := ts + "|" + ref.String()
		if v, ok := g.ptrs[key]; ok {
			return v
		}
		if len(n.kids) == 0 {
			g.fail = "object graph deeper than the replay bound"
			return "nil"
		}
		name := fmt.Sprintf("p%d", len(g.ptrs)+1)
		g.ptrs[key] = name
		elem := n.ty.Underlying().(*types.Pointer).Elem()
		g.stmts = append(g.stmts, fmt.Sprintf("%s := new(%s)", name, g.typeStr(elem)))
		init := g.expr(n.kids[0])
		g.stmts = append(g.stmts, fmt.Sprintf("*%s = %s", name, init))
		return name
	case "slice":
		ts := g.typeStr(n.ty)
		if len(n.xval) < 3 {
			return ts + "(nil)"
		}
		arr, ok1 := smtInt(n.xval[0], true, 64)
		ln, ok2 := smtInt(n.xval[1], true, 64)
		cp, ok3 := smtInt(n.xval[2], true, 64)
		if !ok1 || !ok2 || !ok3 || !ln.IsInt64() || !cp.IsInt64() {
			g.fail = "unreadable slice header"
			return "nil"
		}
		for i, x := range n.extra {
			pin(x, n.xval[i])
		}
		if arr.Sign() == 0 && ln.Sign() == 0 {
			return ts + "(nil)"
		}
		l, c := int(ln.Int64()), int(cp.Int64())
		if l < 0 || l > hrMaxLen || c < l || c > 2*hrMaxLen {
			g.fail = fmt.Sprintf("slice of length %d capacity %d outside the replay bound", l, c)
			return "nil"
		}
		if l > 0 && len(n.kids) < l {
			g.fail = "object graph deeper than the replay bound"
			return "nil"
		}
		var es []string
		for i := 0; i < l; i++ {
			es = append(es, g.expr(n.kids[i]))
		}
		return fmt.Sprintf("append(make(%s, 0, %d), %s{%s}...)", ts, c, ts, strings.Join(es, ", "))
	}
	// opaque
	if n.val == "" {
		return "nil"
	}
	if ref, ok := smtInt(n.val, true, 64); ok && ref.Sign() == 0 {
		pin(n.term, n.val)
		if _, isB := n.ty.Underlying().(*types.Basic); isB {
			g.fail = "unsupported scalar input of type " + n.ty.String()
		}
		return "nil"
	}
	g.fail = "cannot rebuild a non-nil " + n.ty.String()
	return "nil"
}

// collectStrings maps the model values of string terms to Go literals. In the
// default encoding strings are reals (0 is ""), ordered like the strings they stand for.
func collectStrings(n *hrNode, strSMT bool, acc map[string]bool) {
	if n.kind == "string" && n.val != "" {
		acc[n.val] = true
	}
	for _, k := range n.kids {
		collectStrings(k, strSMT, acc)
	}
}

func smtReal(v string) (*big.Rat, bool) {
	v = strings.TrimSpace(v)
	if strings.HasPrefix(v, "(- ") {
		r, ok := smtReal(strings.TrimSuffix(v[3:], ")"))
		if !ok {
			return nil, false
		}
		return r.Neg(r), true
	}
	if strings.HasPrefix(v, "(/ ") {
		f := strings.Fields(strings.TrimSuffix(v[3:], ")"))
		if len(f) != 2 {
			return nil, false
		}
		a, ok1 := new(big.Rat).SetString(f[0])
		b, ok2 := new(big.Rat).SetString(f[1])
		if !ok1 || !ok2 || b.Sign() == 0 {
			return nil, false
		}
		return a.Quo(a, b), true
	}
	return new(big.Rat).SetString(v)
}

func unescapeSMTString(v string) (string, bool) {
	if len(v) < 2 || v[0] != '"' || v[len(v)-1] != '"' {
		return "", false
	}
	s := strings.ReplaceAll(v[1:len(v)-1], `""`, `"`)
	var b strings.Builder
	for i := 0; i < len(s); i++ {
		if strings.HasPrefix(s[i:], `\u{`) {
			j := strings.IndexByte(s[i:], '}')
			if j < 0 {
				return "", false
			}
			c, err := strconv.ParseUint(s[i+3:i+j], 16, 32)
			if err != nil || c > 255 {
				return "", false
			}
			b.WriteByte(byte(c))
			i += j
			continue
		}
		b.WriteByte(s[i])
	}
	return b.String(), true
}

func heapReplay(e *Engine, rf *replayFile, v *violation, repo string, fn *ssa.Function) {
	vc := v.vc
	c := vc.contract
	sig := fn.Signature
	if fn.TypeParams().Len() > 0 || len(fn.FreeVars) > 0 {
		rf.Reason = "generic functions and closures are not replayed"
		return
	}
	p := &hrPlan{vc: vc, declared: map[string]bool{}, slot: map[string]int{}}
	for _, s := range vc.script[:v.obl.Prefix] {
		if strings.HasPrefix(s, "(declare-const ") || strings.HasPrefix(s, "(declare-fun ") || strings.HasPrefix(s, "(define-fun ") {
			f := strings.Fields(s)
			if len(f) > 1 {
				p.declared[f[1]] = true
			}
		}
	}
	var roots []*hrNode
	for _, prm := range fn.Params {
		roots = append(roots, p.plan("in_"+smtQuote(prm.Name()), prm.Type(), 0))
	}
	if p.fail != "" {
		rf.Reason = "no replay: " + p.fail
		return
	}
	q := vc.smtFor(v.obl, false)
	ask := "(get-value (" + strings.Join(p.ask, " ") + "))\n"
	q = "(set-option :produce-models true)\n" + strings.Replace(q, "(check-sat)", strings.Join(p.lenCons, "\n")+"\n(check-sat)\n"+ask, 1)
	tmp, err := os.CreateTemp("", "gocv-heap-*.smt2")
	if err != nil {
		return
	}
	tmp.WriteString(q)
	tmp.Close()
	defer os.Remove(tmp.Name())
	r := runSolver(context.Background(), solvers[0], tmp.Name(), 60)
	if r.result != "sat" {
		rf.Reason = "no replay: no model with inputs inside the replay bound (" + r.result + ")"
		return
	}
	vals := parseGetValue(r.output)
	if len(vals) != len(p.ask) {
		rf.Reason = fmt.Sprintf("no replay: model has %d of %d values", len(vals), len(p.ask))
		return
	}
	for _, n := range roots {
		p.fill(n, vals)
	}
	g := &hrGen{vc: vc, pkg: fn.Pkg.Pkg, imports: map[string]string{}, ptrs: map[string]string{}, strs: map[string]string{}}
	sset := map[string]bool{}
	for _, n := range roots {
		collectStrings(n, vc.strSMT, sset)
	}
	if vc.strSMT {
		for s := range sset {
			if u, ok := unescapeSMTString(s); ok {
				g.strs[s] = strconv.Quote(u)
			}
		}
	} else {
		type rv struct {
			s string
			r *big.Rat
		}
		var rs []rv
		for s := range sset {
			if r, ok := smtReal(s); ok {
				rs = append(rs, rv{s, r})
			}
		}
		sort.Slice(rs, func(i, j int) bool { return rs[i].r.Cmp(rs[j].r) < 0 })
		k := 0
		for _, x := range rs {
			if x.r.Sign() == 0 {
				g.strs[x.s] = `""`
				continue
			}
			k++
			g.strs[x.s] = strconv.Quote(fmt.Sprintf("s%03d", k))
		}
	}
	var args []string
	for i, n := range roots {
		a := g.expr(n)
		if sig.Variadic() && i == len(roots)-1 {
			a += "..."
		}
		args = append(args, a)
		rf.Inputs = append(rf.Inputs, fn.Params[i].Name()+"="+a)
	}
	if g.fail != "" {
		rf.Reason = "no replay: " + g.fail
		rf.Inputs = nil
		return
	}
	rf.Inputs = append(append([]string{}, g.stmts...), rf.Inputs...)
	call := ""
	if sig.Recv() != nil {
		call = fmt.Sprintf("(%s).%s(%s)", args[0], fn.Name(), strings.Join(args[1:], ", "))
	} else {
		call = fmt.Sprintf("%s(%s)", fn.Name(), strings.Join(args, ", "))
	}
	nres := sig.Results().Len()
	var body strings.Builder
	for _, s := range g.stmts {
		body.WriteString("\t" + s + "\n")
	}
	var lhs, shown []string
	for i := 0; i < nres; i++ {
		lhs = append(lhs, fmt.Sprintf("r%d", i))
		switch vc.resolve(sig.Results().At(i).Type()).Underlying().(type) {
		case *types.Pointer, *types.Interface, *types.Map, *types.Chan, *types.Signature:
			shown = append(shown, fmt.Sprintf("gocvNil(r%d == nil)", i))
		default:
			shown = append(shown, fmt.Sprintf("r%d", i))
		}
	}
	if nres > 0 {
		body.WriteString("\t" + strings.Join(lhs, ", ") + " := " + call + "\n")
		body.WriteString("\tfmt.Printf(\"GOCV-RESULT:")
		for i := range lhs {
			fmt.Fprintf(&body, " r%d=%%v", i)
		}
		body.WriteString("\\n\", " + strings.Join(shown, ", ") + ")\n")
	} else {
		body.WriteString("\t" + call + "\n\tfmt.Println(\"GOCV-RESULT:\")\n")
	}
	var imps []string
	for path, name := range g.imports {
		imps = append(imps, fmt.Sprintf("\t%s %q\n", name, path))
	}
	sort.Strings(imps)
	src := fmt.Sprintf(`package %s

import (
	"fmt"
	"testing"
%s)

func gocvNil(b bool) string {
	if b {
		return "nil"
	}
	return "nonnil"
}

func TestGocvReplay(t *testing.T) {
	defer func() {
		if r := recover(); r != nil {
			fmt.Printf("GOCV-PANIC: %%v\n", r)
		}
	}()
%s}
`, fn.Pkg.Pkg.Name(), strings.Join(imps, ""), body.String())
	pkgDir := strings.TrimPrefix(c.Pkg, repoModule+"/")
	rf.TestPkg, rf.TestSrc = pkgDir, src
	rf.TestCmd = "/verif/bin/check --replay <this file>"
	out, _ := runOverlayTest(repo, pkgDir, src, "TestGocvReplay")
	panicked := strings.Contains(out, "GOCV-PANIC:")
	var resLine string
	for _, l := range strings.Split(out, "\n") {
		if strings.HasPrefix(l, "GOCV-RESULT:") || strings.HasPrefix(l, "GOCV-PANIC:") {
			resLine = l
		}
	}
	rf.Observed = resLine
	if resLine == "" {
		rf.Observed = "replay did not run: " + firstLines(out, 8)
		return
	}
	switch {
	case g.approx && v.obl.Kind != "post":
		rf.Reason = "replay ran on inputs that only approximate the model (foreign objects rebuilt as zero values): not counted as a failing input"
	case panicKinds[v.obl.Kind]:
		rf.Confirmed = panicked
	case v.obl.Kind == "nopanic":
		rf.Confirmed = !panicked
	case v.obl.Kind == "post":
		if panicked {
			return
		}
		// pin the rebuilt inputs and what the run returned, re-ask the solver
		pins := append([]string{}, g.pins...)
		obs := map[string]string{}
		for _, f := range strings.Fields(strings.TrimPrefix(resLine, "GOCV-RESULT:")) {
			kv := strings.SplitN(f, "=", 2)
			if len(kv) == 2 {
				obs[kv[0]] = kv[1]
			}
		}
		for i, rt := range vc.retTerms {
			o, ok := obs[fmt.Sprintf("r%d", i)]
			if !ok {
				continue
			}
			switch {
			case o == "nil":
				pins = append(pins, fmt.Sprintf("(assert (= %s 0))", rt.S))
			case o == "nonnil":
				pins = append(pins, fmt.Sprintf("(assert (not (= %s 0)))", rt.S))
			case rt.Sort == SBool && (o == "true" || o == "false"):
				pins = append(pins, fmt.Sprintf("(assert (= %s %s))", rt.S, o))
			case rt.Sort == SInt:
				if n, ok := new(big.Int).SetString(o, 10); ok {
					pins = append(pins, fmt.Sprintf("(assert (= %s %s))", rt.S, smtNum(n.String())))
				}
			case isBV(rt.Sort):
				if n, ok := new(big.Int).SetString(o, 10); ok {
					pins = append(pins, fmt.Sprintf("(assert (= %s %s))", rt.S, bvLit(n, bvWidth(rt.Sort)).S))
				}
			}
		}
		q := vc.smtFor(v.obl, false)
		q = strings.Replace(q, "(check-sat)", strings.Join(pins, "\n")+"\n(check-sat)", 1)
		tmp2, _ := os.CreateTemp("", "gocv-confirm-*.smt2")
		tmp2.WriteString(q)
		tmp2.Close()
		defer os.Remove(tmp2.Name())
		r := race(tmp2.Name(), 5, 30)
		rf.Confirmed = r.result == "sat"
	}
}
