package main

import (
	"flag"
	"fmt"
	"os"
	"path/filepath"
	"regexp"
	"sort"
	"strings"
	"time"
)

func usage() {
	fmt.Fprintln(os.Stderr, `usage:
  gocv verify [-repo /repo] [-spec file]... [-only regex] [-keep] [-t sec] pkg-pattern...
  gocv loops  [-repo /repo] pkg-pattern func
  gocv check  <property-id> [--tier quick|thorough]
  gocv replay <file>`)
	os.Exit(2)
}

type multiFlag []string

func (m *multiFlag) String() string     { return strings.Join(*m, ",") }
func (m *multiFlag) Set(s string) error { *m = append(*m, s); return nil }

func main() {
	// type aliases are resolved by the type checker (no *types.Alias nodes): two names
	// of one type must map to one SMT sort
	if g := os.Getenv("GODEBUG"); !strings.Contains(g, "gotypesalias") {
		if g != "" {
			g += ","
		}
		os.Setenv("GODEBUG", g+"gotypesalias=0")
	}
	if len(os.Args) < 2 {
		usage()
	}
	switch os.Args[1] {
	case "verify":
		cmdVerify(os.Args[2:])
	case "loops":
		cmdLoops(os.Args[2:])
	case "check":
		os.Exit(cmdCheck(os.Args[2:]))
	case "replay":
		os.Exit(cmdReplay(os.Args[2:]))
	default:
		usage()
	}
}

func cmdVerify(argv []string) {
	fs := flag.NewFlagSet("verify", flag.ExitOnError)
	repo := fs.String("repo", "/repo", "repository root")
	var specs multiFlag
	fs.Var(&specs, "spec", "extra contract file (.spec)")
	only := fs.String("only", "", "regexp on contract keys")
	keep := fs.Bool("keep", false, "keep all SMT files")
	tmo := fs.Int("t", 20, "per-obligation timeout (s)")
	dump := fs.String("dump", "", "dump the SMT query of the named obligation")
	var overlays multiFlag
	fs.Var(&overlays, "overlay", "repo-file=replacement-file (verify a modified source without touching the repo)")
	gnoDir := fs.String("gno", "", "verify a .gno package (directory under the repo) through the Gno front end")
	tier := fs.String("tier", "quick", "quick: only the sampled cases of `split` clauses; thorough: all cases")
	workers := fs.Int("j", 8, "parallel solver jobs")
	fs.Parse(argv)
	t0 := time.Now()
	e := newEngine(*repo)
	e.tier = *tier
	pats := fs.Args()
	for _, ov := range overlays {
		kv := strings.SplitN(ov, "=", 2)
		b, err := os.ReadFile(kv[1])
		if err != nil {
			fmt.Fprintln(os.Stderr, err)
			os.Exit(2)
		}
		if e.overlay == nil {
			e.overlay = map[string][]byte{}
		}
		if !filepath.IsAbs(kv[0]) {
			kv[0] = filepath.Join(*repo, kv[0])
		}
		if _, err := os.Stat(kv[0]); err != nil {
			fmt.Fprintln(os.Stderr, "overlay:", err)
			os.Exit(2)
		}
		e.overlay[kv[0]] = b
	}
	if *gnoDir != "" {
		tmp, pat, err := prepareGno(*repo, GnoTarget{PkgDir: *gnoDir}, e.overlay)
		if tmp != "" && !*keep {
			defer os.RemoveAll(tmp)
			exitCleanup = append(exitCleanup, tmp)
		}
		if err != nil {
			fmt.Fprintln(os.Stderr, "gno front end:", err)
			if tmp != "" && !*keep {
				os.RemoveAll(tmp)
			}
			os.Exit(2)
		}
		e.repo = tmp
		e.overlay = nil
		pats = []string{pat}
	}
	if err := e.load(pats); err != nil {
		fmt.Fprintln(os.Stderr, "load:", err)
		os.Exit(2)
	}
	for _, s := range specs {
		if err := e.contracts.loadContractFile(s, ""); err != nil {
			fmt.Fprintln(os.Stderr, err)
			os.Exit(2)
		}
	}
	if err := e.contracts.parseAll(); err != nil {
		fmt.Fprintln(os.Stderr, err)
		os.Exit(2)
	}
	fmt.Printf("loaded in %.1fs; %d contracts\n", time.Since(t0).Seconds(), len(e.contracts.Funcs))
	var re *regexp.Regexp
	if *only != "" {
		re = regexp.MustCompile(*only)
	}
	dir, _ := os.MkdirTemp("", "gocv")
	if !*keep {
		defer os.RemoveAll(dir)
	}
	var vcs []*VC
	var frs []*FuncResult
	keys := append([]string{}, e.contracts.Order...)
	for _, k := range keys {
		c := e.contracts.Funcs[k]
		if c.Extern || c.Trusted || (re != nil && !re.MatchString(k)) {
			continue
		}
		fr := e.verifyContract(c)
		frs = append(frs, fr)
		vcs = append(vcs, fr.VCs...)
	}
	for _, l := range e.contracts.Lemmas {
		if re != nil && !re.MatchString(l.Pkg+".lemma:"+l.Name) {
			continue
		}
		vcs = append(vcs, e.verifyLemma(l))
	}
	if *dump != "" {
		for _, vc := range vcs {
			for _, o := range vc.obls {
				if o.Name == *dump {
					fmt.Print(vc.smtFor(o, true))
				}
			}
		}
		return
	}
	solveAll(vcs, solveCfg{dir: dir, quickS: 2, fullS: *tmo, workers: *workers})
	bad := 0
	for _, fr := range frs {
		if fr.Err != "" {
			fmt.Printf("ERROR %s: %s\n", fr.Name, fr.Err)
			bad++
		}
	}
	for _, vc := range vcs {
		n, ok := 0, 0
		for _, o := range vc.obls {
			n++
			if o.Status == "proved" {
				ok++
			}
		}
		fmt.Printf("%-60s %d/%d", vc.Name, ok, n)
		if len(vc.errs) > 0 {
			fmt.Printf("  ENGINE-ERROR: %s", strings.Join(vc.errs, "; "))
			bad++
		}
		fmt.Println()
		for _, o := range vc.obls {
			if o.Status == "proved" && o.TimeS > 3 {
				fmt.Printf("    slow     %s [%s %.1fs]\n", o.Name, o.Solver, o.TimeS)
			}
			if o.Status != "proved" {
				bad++
				fmt.Printf("    %-8s %s  [%s %.2fs] %s @%s\n      %s\n", o.Status, o.Name, o.Solver, o.TimeS, o.Text, o.Pos, firstLines(o.Detail+" "+o.Model, 6))
			}
		}
		var notes []string
		for a := range vc.assumed {
			notes = append(notes, a)
		}
		sort.Strings(notes)
		for _, a := range notes {
			fmt.Printf("    assume: %s\n", a)
		}
	}
	fmt.Printf("total %.1fs, problems: %d\n", time.Since(t0).Seconds(), bad)
	if bad > 0 {
		// os.Exit skips the deferred clean-up: remove the scratch directories here
		if !*keep {
			os.RemoveAll(dir)
			for _, d := range exitCleanup {
				os.RemoveAll(d)
			}
		}
		os.Exit(1)
	}
}

// exitCleanup: scratch directories (Gno front end) to remove when verify exits non-zero.
var exitCleanup []string

func cmdLoops(argv []string) {
	fs := flag.NewFlagSet("loops", flag.ExitOnError)
	repo := fs.String("repo", "/repo", "repository root")
	fs.Parse(argv)
	if fs.NArg() < 2 {
		usage()
	}
	e := newEngine(*repo)
	if err := e.load([]string{fs.Arg(0)}); err != nil {
		fmt.Fprintln(os.Stderr, "load:", err)
		os.Exit(2)
	}
	for path := range e.ssaPkgs {
		if !strings.HasSuffix(path, strings.TrimPrefix(fs.Arg(0), "./")) {
			continue
		}
		fn := e.findFunc(path, fs.Arg(1))
		if fn == nil {
			continue
		}
		fn.WriteTo(os.Stdout)
		loops := findLoops(fn)
		for _, li := range loops {
			fmt.Printf("loop %d: header block %d (%s), %d body blocks\n", li.ordinal, li.header.Index, li.header.Comment, len(li.body))
		}
	}
}
