package main

import (
	"bufio"
	"fmt"
	"os"
	"regexp"
	"strconv"
	"strings"
)

type Clause struct {
	Src  string
	X    *SX
	File string
	Line int
}

type LoopSpec struct {
	Invariants []*Clause
	Decreases  *Clause
	Unroll     int
	Assigns    []*Clause
}

type Contract struct {
	Pkg         string // package path
	Name        string // Func or Type.Method
	Extern      bool
	Instantiate map[string][]string
	InstOrder   []string
	Arith       string // int | bv
	Wraps       bool
	Strings     string // order | smt
	Requires    []*Clause
	Ensures     []*Clause
	Splits      []*SplitSpec // complete case splits: one VC per combination of cases
	AssumedPre  []*Clause    // `assumes_pre`: preconditions assumed for the body, NOT checked at call sites (reported as assumptions)
	Assumed     []*Clause    // `assumes_post`: postconditions assumed at call sites, NOT proved for the body (reported as assumptions)
	PanicsIff   *Clause
	MayPanic    *Clause // may_panic_only_if
	NoPanic     bool
	OnPanic     []*Clause
	Assigns     []*Clause
	HasAssigns  bool
	Decreases   *Clause
	Pure        bool
	Inline      bool
	Trusted     bool
	Opaque      bool // extern without semantics: fresh result, nothing assigned
	Loops       map[int]*LoopSpec
	Results     []string // optional result names for extern funcs
	File        string
	Line        int
}

func (c *Contract) Key() string { return c.Pkg + "." + c.Name }

func (c *Contract) loop(k int) *LoopSpec {
	if c.Loops == nil {
		c.Loops = map[int]*LoopSpec{}
	}
	if c.Loops[k] == nil {
		c.Loops[k] = &LoopSpec{}
	}
	return c.Loops[k]
}

type SpecFunc struct {
	Pkg       string
	Name      string
	Params    []QVar
	Ret       string
	Body      *SX
	Decreases *Clause
	Recursive bool
	Uninterp  bool
	File      string
	Line      int
}

// SplitSpec is `split <int expr> in lo..hi [quick v1,v2,...]`: the cases expr == lo, ...,
// expr == hi, expr < lo and expr > hi are verified separately (together they are
// exhaustive by construction); in the quick tier only the listed values are run.
type SplitSpec struct {
	Expr   *Clause
	Lo, Hi int64
	Quick  []int64
	// Thorough, when given, lists the value ranges run in the thorough tier; the cases
	// outside it are run in no tier (the split is then incomplete, and reported as such)
	Thorough [][2]int64
}

type Lemma struct {
	Pkg      string
	Name     string
	Params   []QVar
	Requires []*Clause
	Ensures  []*Clause
	Arith    string
	Strings  string // "smt": SMT string theory
	Induct   string // induction variable ("" = none)
	From     int64  // base: for n <= From the lemma is proved without hypothesis
	File     string
	Line     int
}

type Ghost struct {
	Pkg, Name, Type string
}

type ContractSet struct {
	Funcs     map[string]*Contract // key: pkg.Name
	SpecFuncs map[string]*SpecFunc // key: pkg.name and bare name
	Lemmas    []*Lemma
	Order     []string
	Ghosts    map[string]*Ghost
}

func newContractSet() *ContractSet {
	return &ContractSet{Funcs: map[string]*Contract{}, SpecFuncs: map[string]*SpecFunc{}, Ghosts: map[string]*Ghost{}}
}

var (
	reSplit     = regexp.MustCompile(`^(.*)\s+in\s+(-?\d+)\.\.(-?\d+)(?:\s+quick\s+([-\d,\s]+?))?(?:\s+thorough\s+([-\d,.\s]+))?$`)
	reFuncHdr   = regexp.MustCompile(`^func\s+(?:\(\s*(?:\w+\s+)?\*?([\w./]+)\s*\)\s*\.?\s*)?([\w.]+)(?:\[[^\]]*\])?\s*$`)
	reExternHdr = regexp.MustCompile(`^extern\s+func\s+(?:\(\s*\*?([\w./\-]+)\s*\)\s*\.\s*)?([\w./\-]+)\s*$`)
	reSpecHdr   = regexp.MustCompile(`^spec\s+func\s+(\w+)\s*\(([^)]*)\)\s*([\w\[\]*.]+)\s*=\s*(.*)$`)
	reSpecDecl  = regexp.MustCompile(`^spec\s+func\s+(\w+)\s*\(([^)]*)\)\s*([\w\[\]*.]+)\s*$`)
	reLemmaHdr  = regexp.MustCompile(`^lemma\s+(\w+)\s*\(([^)]*)\)\s*$`)
)

func parseParams(s string) []QVar {
	var out []QVar
	s = strings.TrimSpace(s)
	if s == "" {
		return nil
	}
	for _, p := range strings.Split(s, ",") {
		f := strings.Fields(p)
		if len(f) == 2 {
			out = append(out, QVar{f[0], f[1]})
		} else if len(f) == 1 {
			out = append(out, QVar{f[0], ""})
		}
	}
	// Go-style "a, b int"
	for i := len(out) - 2; i >= 0; i-- {
		if out[i].Type == "" {
			out[i].Type = out[i+1].Type
		}
	}
	return out
}

// loadContractFile reads //@ lines from a Go file or .spec file.
// defaultPkg is the package path for Go-resident contract files; .spec files
// may override with "//@ package <path>".
func (cs *ContractSet) loadContractFile(path, defaultPkg string) error {
	f, err := os.Open(path)
	if err != nil {
		return err
	}
	defer f.Close()
	sc := bufio.NewScanner(f)
	sc.Buffer(make([]byte, 1<<20), 1<<20)
	pkg := defaultPkg
	var cur *Contract
	var curSpec *SpecFunc
	var curLemma *Lemma
	var lastClause **Clause // for continuation lines
	var lastSpecBody *string
	specBodies := map[*SpecFunc]*string{}
	ln := 0
	finish := func() {
		cur, curSpec, curLemma, lastClause, lastSpecBody = nil, nil, nil, nil, nil
	}
	mk := func(src string) *Clause { return &Clause{Src: strings.TrimSpace(src), File: path, Line: ln} }
	for sc.Scan() {
		ln++
		line := strings.TrimSpace(sc.Text())
		if !strings.HasPrefix(line, "//@") {
			if line == "" || !strings.HasPrefix(line, "//") {
				// blank or code line ends a block
				if line == "" {
					finish()
				}
			}
			continue
		}
		body := strings.TrimSpace(line[3:])
		if i := strings.Index(body, " // "); i >= 0 { // trailing comment
			body = strings.TrimSpace(body[:i])
		}
		if body == "" {
			continue
		}
		word := body
		rest := ""
		if i := strings.IndexAny(body, " \t"); i >= 0 {
			word, rest = body[:i], strings.TrimSpace(body[i+1:])
		}
		switch word {
		case "package":
			pkg = rest
			continue
		case "ghost":
			finish()
			f := strings.Fields(rest)
			if len(f) != 3 || f[0] != "var" {
				return fmt.Errorf("%s:%d: expected `ghost var name type`", path, ln)
			}
			cs.Ghosts[f[1]] = &Ghost{Pkg: pkg, Name: f[1], Type: f[2]}
			continue
		case "func":
			finish()
			m := reFuncHdr.FindStringSubmatch(body)
			if m == nil {
				return fmt.Errorf("%s:%d: bad func header %q", path, ln, body)
			}
			name := m[2]
			if m[1] != "" {
				name = m[1] + "." + m[2]
			}
			cur = &Contract{Pkg: pkg, Name: name, File: path, Line: ln}
			if old := cs.Funcs[cur.Key()]; old != nil {
				return fmt.Errorf("%s:%d: duplicate contract for %s", path, ln, cur.Key())
			}
			cs.Funcs[cur.Key()] = cur
			cs.Order = append(cs.Order, cur.Key())
			continue
		case "extern":
			finish()
			m := reExternHdr.FindStringSubmatch(body)
			if m == nil {
				return fmt.Errorf("%s:%d: bad extern header %q", path, ln, body)
			}
			var epkg, name string
			if m[1] != "" { // (pkg.T).Method
				i := strings.LastIndex(m[1], ".")
				epkg, name = m[1][:i], m[1][i+1:]+"."+m[2]
			} else {
				i := strings.LastIndex(m[2], ".")
				if i < 0 {
					return fmt.Errorf("%s:%d: extern needs package-qualified name", path, ln)
				}
				epkg, name = m[2][:i], m[2][i+1:]
			}
			cur = &Contract{Pkg: epkg, Name: name, Extern: true, File: path, Line: ln}
			cs.Funcs[cur.Key()] = cur
			continue
		case "spec":
			finish()
			m := reSpecHdr.FindStringSubmatch(body)
			if m == nil {
				if d := reSpecDecl.FindStringSubmatch(body); d != nil {
					// uninterpreted spec function: declared, not defined
					sf := &SpecFunc{Pkg: pkg, Name: d[1], Params: parseParams(d[2]), Ret: d[3], File: path, Line: ln, Uninterp: true}
					cs.SpecFuncs[sf.Name] = sf
					cs.SpecFuncs[pkg+"."+sf.Name] = sf
					continue
				}
				return fmt.Errorf("%s:%d: bad spec func header %q", path, ln, body)
			}
			curSpec = &SpecFunc{Pkg: pkg, Name: m[1], Params: parseParams(m[2]), Ret: m[3], File: path, Line: ln}
			b := m[4]
			specBodies[curSpec] = &b
			lastSpecBody = &b
			cs.SpecFuncs[curSpec.Name] = curSpec
			cs.SpecFuncs[pkg+"."+curSpec.Name] = curSpec
			continue
		case "lemma":
			finish()
			m := reLemmaHdr.FindStringSubmatch(body)
			if m == nil {
				return fmt.Errorf("%s:%d: bad lemma header %q", path, ln, body)
			}
			curLemma = &Lemma{Pkg: pkg, Name: m[1], Params: parseParams(m[2]), File: path, Line: ln}
			cs.Lemmas = append(cs.Lemmas, curLemma)
			continue
		}
		// clause lines
		if curLemma != nil {
			switch word {
			case "requires":
				c := mk(rest)
				curLemma.Requires = append(curLemma.Requires, c)
				lastClause = &curLemma.Requires[len(curLemma.Requires)-1]
			case "ensures":
				c := mk(rest)
				curLemma.Ensures = append(curLemma.Ensures, c)
				lastClause = &curLemma.Ensures[len(curLemma.Ensures)-1]
			case "arith":
				curLemma.Arith = rest
			case "strings":
				curLemma.Strings = rest
				lastClause = nil
			case "induct":
				// induct <var> from <base>
				f := strings.Fields(rest)
				if len(f) != 3 || f[1] != "from" {
					return fmt.Errorf("%s:%d: expected `induct <var> from <int>`", path, ln)
				}
				b, err := strconv.ParseInt(f[2], 10, 64)
				if err != nil {
					return fmt.Errorf("%s:%d: bad induction base", path, ln)
				}
				curLemma.Induct, curLemma.From = f[0], b
				lastClause = nil
			default:
				if lastClause == nil {
					return fmt.Errorf("%s:%d: stray line %q", path, ln, body)
				}
				(*lastClause).Src += " " + body
			}
			continue
		}
		if curSpec != nil {
			if word == "decreases" {
				curSpec.Decreases = mk(rest)
				lastSpecBody = nil
				continue
			}
			if lastSpecBody == nil {
				return fmt.Errorf("%s:%d: stray line %q", path, ln, body)
			}
			*lastSpecBody += " " + body
			continue
		}
		if cur == nil {
			return fmt.Errorf("%s:%d: clause outside a block: %q", path, ln, body)
		}
		switch word {
		case "instantiate":
			i := strings.Index(rest, ":")
			if i < 0 {
				return fmt.Errorf("%s:%d: bad instantiate", path, ln)
			}
			if cur.Instantiate == nil {
				cur.Instantiate = map[string][]string{}
			}
			tp := strings.TrimSpace(rest[:i])
			cur.Instantiate[tp] = strings.Fields(rest[i+1:])
			cur.InstOrder = append(cur.InstOrder, tp)
			lastClause = nil
		case "arith":
			f := strings.Fields(rest)
			cur.Arith = f[0]
			for _, x := range f[1:] {
				if x == "wraps" {
					cur.Wraps = true
				}
			}
			lastClause = nil
		case "strings":
			cur.Strings = rest
			lastClause = nil
		case "requires":
			cur.Requires = append(cur.Requires, mk(rest))
			lastClause = &cur.Requires[len(cur.Requires)-1]
		case "ensures":
			cur.Ensures = append(cur.Ensures, mk(rest))
			lastClause = &cur.Ensures[len(cur.Ensures)-1]
		case "split":
			// split <expr> in lo..hi [quick a,b,c] [thorough a..b,c]
			m := reSplit.FindStringSubmatch(rest)
			if m == nil {
				return fmt.Errorf("%s:%d: expected `split <expr> in <lo>..<hi> [quick v,...] [thorough a..b,...]`", path, ln)
			}
			lo, _ := strconv.ParseInt(m[2], 10, 64)
			hi, _ := strconv.ParseInt(m[3], 10, 64)
			sp := &SplitSpec{Expr: mk(strings.TrimSpace(m[1])), Lo: lo, Hi: hi}
			for _, q := range strings.Split(m[4], ",") {
				if q = strings.TrimSpace(q); q != "" {
					v, err := strconv.ParseInt(q, 10, 64)
					if err != nil {
						return fmt.Errorf("%s:%d: bad quick value %q", path, ln, q)
					}
					sp.Quick = append(sp.Quick, v)
				}
			}
			for _, q := range strings.Split(m[5], ",") {
				if q = strings.TrimSpace(q); q != "" {
					var a, b int64
					if i := strings.Index(q, ".."); i > 0 {
						a, _ = strconv.ParseInt(strings.TrimSpace(q[:i]), 10, 64)
						b, _ = strconv.ParseInt(strings.TrimSpace(q[i+2:]), 10, 64)
					} else {
						v, err := strconv.ParseInt(q, 10, 64)
						if err != nil {
							return fmt.Errorf("%s:%d: bad thorough value %q", path, ln, q)
						}
						a, b = v, v
					}
					sp.Thorough = append(sp.Thorough, [2]int64{a, b})
				}
			}
			cur.Splits = append(cur.Splits, sp)
			lastClause = nil
		case "assumes_pre":
			cur.AssumedPre = append(cur.AssumedPre, mk(rest))
			lastClause = &cur.AssumedPre[len(cur.AssumedPre)-1]
		case "assumes_post":
			cur.Assumed = append(cur.Assumed, mk(rest))
			lastClause = &cur.Assumed[len(cur.Assumed)-1]
		case "panics_iff":
			cur.PanicsIff = mk(rest)
			lastClause = &cur.PanicsIff
		case "may_panic_only_if":
			cur.MayPanic = mk(rest)
			lastClause = &cur.MayPanic
		case "no_panic":
			cur.NoPanic = true
			lastClause = nil
		case "on_panic":
			cur.OnPanic = append(cur.OnPanic, mk(rest))
			lastClause = &cur.OnPanic[len(cur.OnPanic)-1]
		case "assigns":
			cur.HasAssigns = true
			if rest != "nothing" {
				for _, a := range splitTop(rest, ',') {
					cl := mk(a)
					if strings.HasPrefix(a, "ghost ") {
						cl.X = &SX{K: "ghost", Op: strings.TrimSpace(a[6:])}
					}
					if strings.HasPrefix(a, "cell(") && strings.HasSuffix(a, ")") {
						// the cell behind a pointer to a non-struct value
						base, err := parseSpec(a[5 : len(a)-1])
						if err != nil {
							return fmt.Errorf("%s:%d: %v", path, ln, err)
						}
						cl.X = &SX{K: "cell", Args: []*SX{base}}
					}
					if strings.HasPrefix(a, "all ") {
						// `all T.f`: field f of EVERY object of struct type T (coarse frame;
						// the ensures clauses must say which objects keep their value)
						tf := strings.TrimSpace(a[4:])
						i := strings.LastIndex(tf, ".")
						if i <= 0 {
							return fmt.Errorf("%s:%d: expected `all Type.field`", path, ln)
						}
						cl.X = &SX{K: "allfield", Op: tf[i+1:], Args: []*SX{{K: "id", Op: tf[:i]}}}
					}
					if strings.HasSuffix(a, "[*]") {
						// all elements of a slice
						base, err := parseSpec(strings.TrimSuffix(a, "[*]"))
						if err != nil {
							return fmt.Errorf("%s:%d: %v", path, ln, err)
						}
						cl.X = &SX{K: "idx", Args: []*SX{base, {K: "id", Op: "*"}}}
					}
					cur.Assigns = append(cur.Assigns, cl)
				}
			}
			lastClause = nil
		case "decreases":
			cur.Decreases = mk(rest)
			lastClause = &cur.Decreases
		case "pure":
			cur.Pure = true
		case "inline":
			cur.Inline = true
		case "trusted":
			cur.Trusted = true
		case "opaque":
			cur.Opaque = true
		case "results":
			cur.Results = strings.Fields(strings.ReplaceAll(rest, ",", " "))
		case "loop":
			f := strings.SplitN(rest, " ", 3)
			if len(f) < 3 {
				return fmt.Errorf("%s:%d: bad loop clause", path, ln)
			}
			k, err := strconv.Atoi(f[0])
			if err != nil {
				return fmt.Errorf("%s:%d: bad loop ordinal", path, ln)
			}
			ls := cur.loop(k)
			switch f[1] {
			case "invariant":
				ls.Invariants = append(ls.Invariants, mk(f[2]))
				lastClause = &ls.Invariants[len(ls.Invariants)-1]
			case "decreases":
				ls.Decreases = mk(f[2])
				lastClause = &ls.Decreases
			case "unroll":
				n, err := strconv.Atoi(strings.TrimSpace(f[2]))
				if err != nil {
					return fmt.Errorf("%s:%d: bad unroll", path, ln)
				}
				ls.Unroll = n
				lastClause = nil
			case "assigns":
				for _, a := range splitTop(f[2], ',') {
					ls.Assigns = append(ls.Assigns, mk(a))
				}
				lastClause = nil
			default:
				return fmt.Errorf("%s:%d: bad loop clause kind %q", path, ln, f[1])
			}
		default:
			if lastClause == nil {
				return fmt.Errorf("%s:%d: unknown clause %q", path, ln, body)
			}
			(*lastClause).Src += " " + body
		}
	}
	for sf, b := range specBodies {
		x, err := parseSpec(*b)
		if err != nil {
			return fmt.Errorf("%s:%d: %v", sf.File, sf.Line, err)
		}
		sf.Body = x
		sf.Recursive = mentionsCall(x, sf.Name)
	}
	return sc.Err()
}

func mentionsCall(x *SX, name string) bool {
	if x == nil {
		return false
	}
	if x.K == "call" && x.Args[0].K == "id" && x.Args[0].Op == name {
		return true
	}
	for _, a := range x.Args {
		if mentionsCall(a, name) {
			return true
		}
	}
	return false
}

func splitTop(s string, sep byte) []string {
	var out []string
	d := 0
	last := 0
	for i := 0; i < len(s); i++ {
		switch s[i] {
		case '(', '[':
			d++
		case ')', ']':
			d--
		default:
			if s[i] == sep && d == 0 {
				out = append(out, strings.TrimSpace(s[last:i]))
				last = i + 1
			}
		}
	}
	out = append(out, strings.TrimSpace(s[last:]))
	return out
}

// parseAll parses every clause's expression. Called once after loading.
func (cs *ContractSet) parseAll() error {
	pc := func(c *Clause) error {
		if c == nil || c.X != nil {
			return nil
		}
		x, err := parseSpec(c.Src)
		if err != nil {
			return fmt.Errorf("%s:%d: %v", c.File, c.Line, err)
		}
		c.X = x
		return nil
	}
	pcs := func(cl []*Clause) error {
		for _, c := range cl {
			if err := pc(c); err != nil {
				return err
			}
		}
		return nil
	}
	for _, c := range cs.Funcs {
		for _, l := range [][]*Clause{c.Requires, c.AssumedPre, c.Ensures, c.Assumed, c.OnPanic, c.Assigns, {c.PanicsIff, c.MayPanic, c.Decreases}} {
			if err := pcs(l); err != nil {
				return err
			}
		}
		for _, sp := range c.Splits {
			if err := pc(sp.Expr); err != nil {
				return err
			}
		}
		for _, ls := range c.Loops {
			if err := pcs(ls.Invariants); err != nil {
				return err
			}
			if err := pcs(ls.Assigns); err != nil {
				return err
			}
			if err := pc(ls.Decreases); err != nil {
				return err
			}
		}
	}
	for _, sf := range cs.SpecFuncs {
		if err := pc(sf.Decreases); err != nil {
			return err
		}
	}
	for _, l := range cs.Lemmas {
		if err := pcs(l.Requires); err != nil {
			return err
		}
		if err := pcs(l.Ensures); err != nil {
			return err
		}
	}
	return nil
}
