package main

import (
	"bytes"
	"context"
	"fmt"
	"os"
	"os/exec"
	"path/filepath"
	"strings"
	"sync"
	"time"
)

const slicePreamble = "(declare-datatypes ((Slice 0)) (((mk-slice (s.arr Int) (s.off Int) (s.len Int) (s.cap Int)))))"

// smtFor renders the SMT-LIB query of one obligation.
func (vc *VC) smtFor(o *Obligation, withModel bool) string {
	var b strings.Builder
	if withModel {
		b.WriteString("(set-option :produce-models true)\n")
	}
	b.WriteString("(set-logic ALL)\n")
	b.WriteString(slicePreamble + "\n")
	for _, d := range vc.dtOrder {
		b.WriteString(d + "\n")
	}
	for _, s := range vc.script[:o.Prefix] {
		b.WriteString(s + "\n")
	}
	b.WriteString("(assert " + o.Reach.S + ")\n")
	if o.Known != nil {
		// known finding: the obligation is proved outside its recorded input condition
		b.WriteString("(assert (not " + o.KnownTerm.S + "))\n")
	}
	if !o.ExpectSat {
		b.WriteString("(assert (not " + o.Goal.S + "))\n")
	}
	b.WriteString("(check-sat)\n")
	if withModel && len(vc.inputs) > 0 {
		b.WriteString("(get-value (" + strings.Join(vc.inputs, " ") + "))\n")
	}
	return b.String()
}

type solverSpec struct {
	name string
	args func(file string, timeoutS int) []string
}

var solvers = []solverSpec{
	{"z3-new", func(f string, t int) []string { return []string{"z3-new", fmt.Sprintf("-T:%d", t), "-smt2", f} }},
	{"cvc5", func(f string, t int) []string {
		return []string{"cvc5", fmt.Sprintf("--tlimit=%d", t*1000), "--produce-models", f}
	}},
	{"z3", func(f string, t int) []string { return []string{"z3", fmt.Sprintf("-T:%d", t), "-smt2", f} }},
}

type solveOut struct {
	solver string
	result string // sat unsat unknown timeout error
	output string
	timeS  float64
}

func runSolver(ctx context.Context, s solverSpec, file string, timeoutS int) solveOut {
	t0 := time.Now()
	a := s.args(file, timeoutS)
	cctx, cancel := context.WithTimeout(ctx, time.Duration(timeoutS+2)*time.Second)
	defer cancel()
	cmd := exec.CommandContext(cctx, a[0], a[1:]...)
	var out bytes.Buffer
	cmd.Stdout = &out
	cmd.Stderr = &out
	_ = cmd.Run()
	res := solveOut{solver: s.name, output: out.String(), timeS: time.Since(t0).Seconds()}
	first := strings.TrimSpace(strings.SplitN(res.output, "\n", 2)[0])
	switch first {
	case "sat", "unsat", "unknown":
		res.result = first
	case "timeout":
		res.result = "timeout"
	default:
		if cctx.Err() != nil || strings.Contains(res.output, "interrupted") || strings.Contains(res.output, "timeout") {
			res.result = "timeout"
		} else {
			res.result = "error"
		}
	}
	return res
}

// race runs the portfolio on one file; the first definitive answer wins.
func race(file string, quickS, fullS int) solveOut {
	// stage 1: the usually-fastest solver alone, briefly
	if quickS > 0 {
		r := runSolver(context.Background(), solvers[0], file, quickS)
		if r.result == "sat" || r.result == "unsat" {
			return r
		}
	}
	ctx, cancel := context.WithCancel(context.Background())
	defer cancel()
	ch := make(chan solveOut, len(solvers))
	for _, s := range solvers {
		go func(s solverSpec) { ch <- runSolver(ctx, s, file, fullS) }(s)
	}
	var last solveOut
	var errs []string
	for range solvers {
		r := <-ch
		if r.result == "sat" || r.result == "unsat" {
			return r
		}
		if r.result == "error" {
			errs = append(errs, r.solver+": "+firstLines(r.output, 3))
		}
		if last.result == "" || r.result == "unknown" {
			last = r
		}
	}
	if last.result == "error" || (last.result != "unknown" && len(errs) == len(solvers)) {
		last.result = "error"
		last.output = strings.Join(errs, "\n")
	}
	return last
}

func firstLines(s string, n int) string {
	ls := strings.Split(strings.TrimSpace(s), "\n")
	if len(ls) > n {
		ls = ls[:n]
	}
	return strings.Join(ls, " | ")
}

type solveCfg struct {
	dir     string
	quickS  int
	fullS   int
	workers int
}

// solveAll discharges the obligations of the given VCs in parallel.
func solveAll(vcs []*VC, cfg solveCfg) {
	type job struct {
		vc *VC
		o  *Obligation
	}
	var jobs []job
	for _, vc := range vcs {
		for _, o := range vc.obls {
			if o.Status == "" {
				jobs = append(jobs, job{vc, o})
			}
		}
	}
	ch := make(chan job)
	var wg sync.WaitGroup
	for w := 0; w < cfg.workers; w++ {
		wg.Add(1)
		go func() {
			defer wg.Done()
			for j := range ch {
				solveOne(j.vc, j.o, cfg)
			}
		}()
	}
	for _, j := range jobs {
		ch <- j
	}
	close(ch)
	wg.Wait()
}

func solveOne(vc *VC, o *Obligation, cfg solveCfg) {
	text := vc.smtFor(o, true)
	o.SMTSize = len(text)
	file := filepath.Join(cfg.dir, smtQuote(o.Name)+".smt2")
	if err := os.WriteFile(file, []byte(text), 0o644); err != nil {
		o.Status = "error"
		o.Detail = err.Error()
		return
	}
	r := race(file, cfg.quickS, cfg.fullS)
	o.Solver = r.solver
	o.TimeS = r.timeS
	keep := false
	if o.ExpectSat {
		switch r.result {
		case "sat":
			o.Status = "proved"
		case "unsat":
			o.Status = "failed"
			o.Detail = "vacuous: the assumptions are contradictory"
			keep = true
		case "error":
			o.Status = "error"
			o.Detail = r.output
			keep = true
		default:
			o.Status = "proved"
			o.Detail = "cover not refuted (" + r.result + ")"
		}
	} else {
		switch r.result {
		case "unsat":
			o.Status = "proved"
		case "sat":
			o.Status = "failed"
			o.Model = r.output
			keep = true
		case "error":
			o.Status = "error"
			o.Detail = r.output
			keep = true
		default:
			o.Status = "unknown"
			o.Detail = r.result
			keep = true
		}
	}
	if !keep {
		os.Remove(file)
	} else {
		o.Detail = strings.TrimSpace(o.Detail + " smt=" + file)
	}
}
