package main

import (
	"bytes"
	"context"
	"fmt"
	"os"
	"os/exec"
	"path/filepath"
	"strings"
	"sync"
	"time"
)

const slicePreamble = "(declare-datatypes ((Slice 0)) (((mk-slice (s.arr Int) (s.off Int) (s.len Int) (s.cap Int)))))"

// smtFor renders the SMT-LIB query of one obligation.
func (vc *VC) smtFor(o *Obligation, withModel bool) string {
	return vc.smtForOpt(o, withModel, true)
}

// smtForOpt renders the query, with or without the engine's quantifier instances.
func (vc *VC) smtForOpt(o *Obligation, withModel, inst bool) string {
	var b strings.Builder
	if withModel {
		b.WriteString("(set-option :produce-models true)\n")
	}
	b.WriteString("(set-logic ALL)\n")
	b.WriteString(slicePreamble + "\n")
	for _, d := range vc.dtOrder {
		b.WriteString(d + "\n")
	}
	for _, s := range vc.script[:o.Prefix] {
		b.WriteString(s + "\n")
	}
	if !o.ExpectSat && inst {
		for _, s := range preInstantiate(vc.script[:o.Prefix], o.Goal.S+" "+o.Reach.S, 10, 400) {
			b.WriteString(s + "\n")
		}
	}
	b.WriteString("(assert " + o.Reach.S + ")\n")
	if o.Known != nil {
		// known finding: the obligation is proved outside its recorded input condition
		b.WriteString("(assert (not " + o.KnownTerm.S + "))\n")
	}
	if !o.ExpectSat {
		b.WriteString("(assert (not " + o.Goal.S + "))\n")
	}
	b.WriteString("(check-sat)\n")
	if withModel && len(vc.inputs) > 0 {
		b.WriteString("(get-value (" + strings.Join(vc.inputs, " ") + "))\n")
	}
	return b.String()
}

func smtTokens(s string) []string {
	return strings.FieldsFunc(s, func(r rune) bool { return r == ' ' || r == '(' || r == ')' || r == '\n' })
}

// lightQuery renders the obligation without the facts that mention recursive spec
// functions (sf_*). Dropping assumptions only weakens the query, so unsat is still a
// proof; it avoids matching loops on obligations that do not need those facts.
// ok is false when the goal itself depends on such a function.
func (vc *VC) lightQuery(o *Obligation) (string, bool) {
	tainted := map[string]bool{}
	isTainted := func(s string) bool {
		if strings.Contains(s, "sf_") {
			return true
		}
		for _, t := range smtTokens(s) {
			if tainted[t] {
				return true
			}
		}
		return false
	}
	var b strings.Builder
	b.WriteString("(set-logic ALL)\n" + slicePreamble + "\n")
	for _, d := range vc.dtOrder {
		b.WriteString(d + "\n")
	}
	any := false
	for _, s := range vc.script[:o.Prefix] {
		switch {
		case strings.HasPrefix(s, "(define-fun-rec "):
			any = true
			continue
		case strings.HasPrefix(s, "(define-fun "):
			if isTainted(s) {
				f := strings.Fields(s)
				tainted[f[1]] = true
				any = true
				continue
			}
		case strings.HasPrefix(s, "(assert "):
			if isTainted(s) {
				any = true
				continue
			}
		}
		b.WriteString(s + "\n")
	}
	if !any || isTainted(o.Reach.S) || isTainted(o.Goal.S) || (o.Known != nil && isTainted(o.KnownTerm.S)) {
		return "", false
	}
	b.WriteString("(assert " + o.Reach.S + ")\n")
	if o.Known != nil {
		b.WriteString("(assert (not " + o.KnownTerm.S + "))\n")
	}
	b.WriteString("(assert (not " + o.Goal.S + "))\n(check-sat)\n")
	return b.String(), true
}

type solverSpec struct {
	name string
	args func(file string, timeoutS int) []string
}

var solvers = []solverSpec{
	{"z3-new", func(f string, t int) []string { return []string{"z3-new", fmt.Sprintf("-T:%d", t), "-smt2", f} }},
	{"cvc5", func(f string, t int) []string {
		return []string{"cvc5", fmt.Sprintf("--tlimit=%d", t*1000), "--produce-models", "--strings-exp", f}
	}},
	{"z3", func(f string, t int) []string { return []string{"z3", fmt.Sprintf("-T:%d", t), "-smt2", f} }},
}

type solveOut struct {
	solver string
	result string // sat unsat unknown timeout error
	output string
	timeS  float64
}

func runSolver(ctx context.Context, s solverSpec, file string, timeoutS int) solveOut {
	t0 := time.Now()
	a := s.args(file, timeoutS)
	cctx, cancel := context.WithTimeout(ctx, time.Duration(timeoutS+2)*time.Second)
	defer cancel()
	cmd := exec.CommandContext(cctx, a[0], a[1:]...)
	var out bytes.Buffer
	cmd.Stdout = &out
	cmd.Stderr = &out
	_ = cmd.Run()
	res := solveOut{solver: s.name, output: out.String(), timeS: time.Since(t0).Seconds()}
	first := strings.TrimSpace(strings.SplitN(res.output, "\n", 2)[0])
	switch first {
	case "sat", "unsat", "unknown":
		res.result = first
	case "timeout":
		res.result = "timeout"
	default:
		if cctx.Err() != nil || strings.Contains(res.output, "interrupted") || strings.Contains(res.output, "timeout") {
			res.result = "timeout"
		} else {
			res.result = "error"
		}
	}
	return res
}

// race runs the portfolio on one file; the first definitive answer wins.
func race(file string, quickS, fullS int) solveOut {
	// stage 1: the usually-fastest solver alone, briefly
	if quickS > 0 {
		r := runSolver(context.Background(), solvers[0], file, quickS)
		if r.result == "sat" || r.result == "unsat" {
			return r
		}
	}
	ctx, cancel := context.WithCancel(context.Background())
	defer cancel()
	ch := make(chan solveOut, len(solvers))
	for _, s := range solvers {
		go func(s solverSpec) { ch <- runSolver(ctx, s, file, fullS) }(s)
	}
	var last solveOut
	var errs []string
	for range solvers {
		r := <-ch
		if r.result == "sat" || r.result == "unsat" {
			return r
		}
		if r.result == "error" {
			errs = append(errs, r.solver+": "+firstLines(r.output, 3))
		}
		if last.result == "" || r.result == "unknown" || (last.result == "error" && r.result != "error") {
			// an error of one solver (e.g. cvc5 rejecting arrays indexed by arrays) does not
			// outweigh another solver's "unknown"/"timeout"
			last = r
		}
	}
	if last.result == "error" || (last.result != "unknown" && len(errs) == len(solvers)) {
		last.result = "error"
		last.output = strings.Join(errs, "\n")
	}
	return last
}

func firstLines(s string, n int) string {
	ls := strings.Split(strings.TrimSpace(s), "\n")
	if len(ls) > n {
		ls = ls[:n]
	}
	return strings.Join(ls, " | ")
}

type solveCfg struct {
	coverPhase bool // internal: only the `cover` obligations of split cases are solved
	dir     string
	quickS  int
	fullS   int
	workers int
}

// solveAll discharges the obligations of the given VCs in parallel.
func solveAll(vcs []*VC, cfg solveCfg) {
	// cases of a complete `split` that cannot occur (e.g. the out-of-range ends of a split
	// over a one-bit quantity): their precondition is unsatisfiable, so every obligation
	// of that case holds trivially. Decided first, so that no solver time is spent on them;
	// at least one case of every split function must be satisfiable.
	var covers []*VC
	for _, vc := range vcs {
		if len(vc.splitCases) > 0 {
			covers = append(covers, vc)
		}
	}
	if len(covers) > 0 && !cfg.coverPhase {
		var cvcs []*VC
		for _, vc := range covers {
			cvcs = append(cvcs, vc)
		}
		c2 := cfg
		c2.coverPhase = true
		solveAll(cvcs, c2)
		live := map[*Contract]bool{}
		for _, vc := range covers {
			for _, o := range vc.obls {
				if o.Kind == "cover" && o.Status == "proved" {
					live[vc.contract] = true
				}
			}
		}
		for _, vc := range covers {
			vac := false
			for _, o := range vc.obls {
				if o.Kind == "cover" && o.Status == "failed" {
					vac = true
				}
			}
			if vac && live[vc.contract] {
				for _, o := range vc.obls {
					o.Status, o.Solver, o.Detail = "proved", "trivial", "case of a complete split that cannot occur (unsatisfiable case condition)"
				}
			}
		}
	}
	type job struct {
		vc *VC
		o  *Obligation
	}
	var jobs []job
	for _, vc := range vcs {
		for _, o := range vc.obls {
			if o.Status == "" && (!cfg.coverPhase || o.Kind == "cover") {
				jobs = append(jobs, job{vc, o})
			}
		}
	}
	ch := make(chan job)
	var wg sync.WaitGroup
	for w := 0; w < cfg.workers; w++ {
		wg.Add(1)
		go func() {
			defer wg.Done()
			for j := range ch {
				solveOne(j.vc, j.o, cfg)
			}
		}()
	}
	for _, j := range jobs {
		ch <- j
	}
	close(ch)
	wg.Wait()
}

var (
	oblFileMu  sync.Mutex
	oblFileIDs = map[*Obligation]int{}
)

// oblFile is a file-name stem unique to the obligation: distinct obligation names may
// mangle to the same text (the cases `x<0` and `x=0` of a split), and two solver jobs must
// never share a query file.
func oblFile(o *Obligation) string {
	oblFileMu.Lock()
	defer oblFileMu.Unlock()
	id, ok := oblFileIDs[o]
	if !ok {
		id = len(oblFileIDs) + 1
		oblFileIDs[o] = id
	}
	n := smtQuote(o.Name)
	if len(n) > 150 {
		n = n[len(n)-150:]
	}
	return fmt.Sprintf("%05d_%s", id, n)
}

func solveOne(vc *VC, o *Obligation, cfg solveCfg) {
	tryWeaker := func(text, tag string) bool {
		file := filepath.Join(cfg.dir, oblFile(o)+"."+tag+".smt2")
		if os.WriteFile(file, []byte(text), 0o644) != nil {
			return false
		}
		defer os.Remove(file)
		q := cfg.fullS / 4
		if tag == "plain" {
			q = cfg.fullS * 3 / 4
		}
		if q < 3 {
			q = 3
		}
		r := race(file, 2, q)
		if r.result == "unsat" {
			o.Status, o.Solver, o.TimeS, o.SMTSize = "proved", r.solver+"("+tag+")", r.timeS, len(text)
			return true
		}
		return false
	}
	if !o.ExpectSat {
		strong := *o
		if panicKinds[o.Kind] && !o.Goal.IsFalse() {
			// a panic that the contract allows: first try the stronger "this point cannot
			// panic at all" (keeps a quantified panic condition out of the query)
			strong.Goal = tFalse
			if text, ok := vc.lightQuery(&strong); ok && tryWeaker(text, "nopanic-light") {
				return
			}
			if tryWeaker(vc.smtFor(&strong, false), "nopanic") {
				return
			}
		}
		if text, ok := vc.lightQuery(o); ok && tryWeaker(text, "light") {
			return
		}
		// recursive spec functions left uninterpreted: the unfolding facts stated as
		// invariants/lemmas (each proved with the definition) are usually all that is needed
		if len(vc.recDecl) > 0 {
			text := vc.smtFor(o, false)
			n := 0
			for def, decl := range vc.recDecl {
				if strings.Contains(text, def+"\n") {
					text = strings.Replace(text, def+"\n", decl+"\n", 1)
					n++
				}
			}
			if n > 0 && tryWeaker(text, "norec") {
				return
			}
		}
		// without the engine's own quantifier instances (smaller query; sometimes the
		// solver's E-matching alone is faster)
		plain := vc.smtForOpt(o, false, false)
		if len(plain) != len(vc.smtFor(o, false)) && tryWeaker(plain, "plain") {
			return
		}
	}
	text := vc.smtFor(o, true)
	o.SMTSize = len(text)
	file := filepath.Join(cfg.dir, oblFile(o)+".smt2")
	if err := os.WriteFile(file, []byte(text), 0o644); err != nil {
		o.Status = "error"
		o.Detail = err.Error()
		return
	}
	full := cfg.fullS
	if o.ExpectSat && full > 5 {
		full = 5 // vacuity guards: "not refuted within 5 s" is accepted
	}
	r := race(file, cfg.quickS, full)
	o.Solver = r.solver
	o.TimeS = r.timeS
	keep := false
	if o.ExpectSat {
		switch r.result {
		case "sat":
			o.Status = "proved"
		case "unsat":
			o.Status = "failed"
			o.Detail = "vacuous: the assumptions are contradictory"
			keep = true
		case "error":
			o.Status = "error"
			o.Detail = r.output
			keep = true
		default:
			o.Status = "proved"
			o.Detail = "cover not refuted (" + r.result + ")"
		}
	} else {
		switch r.result {
		case "unsat":
			o.Status = "proved"
		case "sat":
			o.Status = "failed"
			o.Model = r.output
			keep = true
		case "error":
			o.Status = "error"
			o.Detail = r.output
			keep = true
		default:
			o.Status = "unknown"
			o.Detail = r.result
			keep = true
		}
	}
	if !keep {
		os.Remove(file)
	} else {
		o.Detail = strings.TrimSpace(o.Detail + " smt=" + file)
	}
}
