package main

import (
	"fmt"
	"strings"
	"unicode"
)

// SX is a node of the contract expression language (DESIGN Appendix G):
// Go expression syntax plus ==>, <==>, c ? a : b, forall/exists, old(e).
type SX struct {
	K    string // id int str un bin call idx slice sel forall exists ite
	Op   string // operator, or name for id/sel/call
	Args []*SX
	Vars []QVar
	Src  string
}

type QVar struct {
	Name string
	Type string
}

func (x *SX) String() string {
	switch x.K {
	case "id", "int":
		return x.Op
	case "str":
		return fmt.Sprintf("%q", x.Op)
	case "un":
		return x.Op + x.Args[0].String()
	case "bin":
		return "(" + x.Args[0].String() + " " + x.Op + " " + x.Args[1].String() + ")"
	case "call":
		var a []string
		for _, y := range x.Args[1:] {
			a = append(a, y.String())
		}
		return x.Args[0].String() + "(" + strings.Join(a, ", ") + ")"
	case "idx":
		return x.Args[0].String() + "[" + x.Args[1].String() + "]"
	case "slice":
		s := x.Args[0].String() + "["
		if x.Args[1] != nil {
			s += x.Args[1].String()
		}
		s += ":"
		if x.Args[2] != nil {
			s += x.Args[2].String()
		}
		return s + "]"
	case "sel":
		return x.Args[0].String() + "." + x.Op
	case "forall", "exists":
		var v []string
		for _, q := range x.Vars {
			v = append(v, q.Name+" "+q.Type)
		}
		return "(" + x.K + " " + strings.Join(v, ", ") + " :: " + x.Args[0].String() + ")"
	case "ite":
		return "(" + x.Args[0].String() + " ? " + x.Args[1].String() + " : " + x.Args[2].String() + ")"
	}
	return "?" + x.K
}

type tok struct {
	k string // id int str op eof
	s string
}

type sparser struct {
	toks []tok
	p    int
	src  string
}

func lexSpec(src string) ([]tok, error) {
	var out []tok
	i := 0
	ops := []string{"<==>", "==>", "&&", "||", "==", "!=", "<=", ">=", "<<", ">>", "&^", "::", "++"}
	for i < len(src) {
		c := src[i]
		switch {
		case c == ' ' || c == '\t' || c == '\n':
			i++
		case c == '"':
			j := i + 1
			var b strings.Builder
			for j < len(src) && src[j] != '"' {
				if src[j] == '\\' && j+1 < len(src) {
					j++
					switch src[j] {
					case 'n':
						b.WriteByte('\n')
					case 't':
						b.WriteByte('\t')
					default:
						b.WriteByte(src[j])
					}
					j++
					continue
				}
				b.WriteByte(src[j])
				j++
			}
			if j >= len(src) {
				return nil, fmt.Errorf("unterminated string in %q", src)
			}
			out = append(out, tok{"str", b.String()})
			i = j + 1
		case unicode.IsLetter(rune(c)) || c == '_' || c == '#':
			j := i + 1
			for j < len(src) && (unicode.IsLetter(rune(src[j])) || unicode.IsDigit(rune(src[j])) || src[j] == '_') {
				j++
			}
			out = append(out, tok{"id", src[i:j]})
			i = j
		case unicode.IsDigit(rune(c)):
			j := i + 1
			for j < len(src) && (unicode.IsLetter(rune(src[j])) || unicode.IsDigit(rune(src[j])) || src[j] == '_') {
				j++
			}
			out = append(out, tok{"int", strings.ReplaceAll(src[i:j], "_", "")})
			i = j
		default:
			matched := false
			for _, o := range ops {
				if strings.HasPrefix(src[i:], o) {
					out = append(out, tok{"op", o})
					i += len(o)
					matched = true
					break
				}
			}
			if !matched {
				out = append(out, tok{"op", string(c)})
				i++
			}
		}
	}
	out = append(out, tok{"eof", ""})
	return out, nil
}

func parseSpec(src string) (x *SX, err error) {
	toks, err := lexSpec(src)
	if err != nil {
		return nil, err
	}
	p := &sparser{toks: toks, src: src}
	defer func() {
		if r := recover(); r != nil {
			if e, ok := r.(specErr); ok {
				err = fmt.Errorf("spec parse error: %s in %q", string(e), src)
				return
			}
			panic(r)
		}
	}()
	x = p.expr(0)
	if p.peek().k != "eof" {
		p.fail("unexpected token " + p.peek().s)
	}
	x.Src = src
	return x, nil
}

type specErr string

func (p *sparser) fail(m string)  { panic(specErr(m)) }
func (p *sparser) peek() tok      { return p.toks[p.p] }
func (p *sparser) next() tok      { t := p.toks[p.p]; p.p++; return t }
func (p *sparser) isOp(s string) bool { t := p.peek(); return t.k == "op" && t.s == s }
func (p *sparser) expect(s string) {
	if !p.isOp(s) {
		p.fail("expected " + s + " got " + p.peek().s)
	}
	p.p++
}

var binPrec = map[string]int{
	"<==>": 2, "==>": 2,
	"||": 3, "&&": 4,
	"==": 5, "!=": 5, "<": 5, "<=": 5, ">": 5, ">=": 5,
	"+": 6, "-": 6, "|": 6, "^": 6, "++": 6,
	"*": 7, "/": 7, "%": 7, "<<": 7, ">>": 7, "&": 7, "&^": 7,
}

func (p *sparser) expr(minPrec int) *SX {
	lhs := p.unary()
	for {
		t := p.peek()
		if t.k != "op" {
			break
		}
		if t.s == "?" && minPrec <= 1 {
			p.next()
			a := p.expr(2)
			p.expect(":")
			b := p.expr(1)
			lhs = &SX{K: "ite", Args: []*SX{lhs, a, b}}
			continue
		}
		prec, ok := binPrec[t.s]
		if !ok || prec < minPrec {
			break
		}
		p.next()
		var rhs *SX
		if t.s == "==>" || t.s == "<==>" {
			rhs = p.expr(prec) // right assoc
		} else {
			rhs = p.expr(prec + 1)
		}
		lhs = &SX{K: "bin", Op: t.s, Args: []*SX{lhs, rhs}}
	}
	return lhs
}

func (p *sparser) unary() *SX {
	t := p.peek()
	if t.k == "op" && (t.s == "!" || t.s == "-" || t.s == "^") {
		p.next()
		return &SX{K: "un", Op: t.s, Args: []*SX{p.unary()}}
	}
	return p.postfix(p.primary())
}

func (p *sparser) typeName() string {
	var b strings.Builder
	for {
		t := p.peek()
		if t.k == "op" && (t.s == "*" || t.s == "[" || t.s == "]") {
			b.WriteString(t.s)
			p.next()
			continue
		}
		break
	}
	t := p.next()
	if t.k != "id" {
		p.fail("type name expected")
	}
	b.WriteString(t.s)
	if p.isOp(".") {
		p.next()
		t2 := p.next()
		b.WriteString("." + t2.s)
	}
	return b.String()
}

func (p *sparser) primary() *SX {
	t := p.next()
	switch t.k {
	case "int":
		return &SX{K: "int", Op: t.s}
	case "str":
		return &SX{K: "str", Op: t.s}
	case "id":
		if t.s == "forall" || t.s == "exists" {
			var vars []QVar
			for {
				n := p.next()
				if n.k != "id" {
					p.fail("quantified variable expected")
				}
				ty := p.typeName()
				vars = append(vars, QVar{n.s, ty})
				if p.isOp(",") {
					p.next()
					continue
				}
				break
			}
			p.expect("::")
			body := p.expr(0)
			return &SX{K: t.s, Vars: vars, Args: []*SX{body}}
		}
		return &SX{K: "id", Op: t.s}
	case "op":
		if t.s == "(" {
			x := p.expr(0)
			p.expect(")")
			return x
		}
	}
	p.fail("unexpected token " + t.s)
	return nil
}

func (p *sparser) postfix(x *SX) *SX {
	for {
		switch {
		case p.isOp("."):
			p.next()
			t := p.next()
			if t.k != "id" {
				p.fail("field name expected")
			}
			x = &SX{K: "sel", Op: t.s, Args: []*SX{x}}
		case p.isOp("("):
			p.next()
			args := []*SX{x}
			for !p.isOp(")") {
				args = append(args, p.expr(0))
				if p.isOp(",") {
					p.next()
				}
			}
			p.expect(")")
			x = &SX{K: "call", Args: args}
		case p.isOp("["):
			p.next()
			var lo, hi *SX
			if !p.isOp(":") {
				lo = p.expr(0)
			}
			if p.isOp(":") {
				p.next()
				if !p.isOp("]") {
					hi = p.expr(0)
				}
				p.expect("]")
				x = &SX{K: "slice", Args: []*SX{x, lo, hi}}
			} else {
				p.expect("]")
				x = &SX{K: "idx", Args: []*SX{x, lo}}
			}
		default:
			return x
		}
	}
}
