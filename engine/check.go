package main

import (
	"encoding/json"
	"flag"
	"fmt"
	"os"
	"path/filepath"
	"sort"
	"strconv"
	"strings"
	"time"
)

const verifRoot = "/verif"

// outRoot is where evidence and replay files go: /verif, unless GOCV_OUT redirects them
// (used when a check is run against a scratch worktree with --repo to try a seeded change).
func outRoot() string {
	if d := os.Getenv("GOCV_OUT"); d != "" {
		return d
	}
	return verifRoot
}

// PropConfig is /verif/props/<id>.json: what a property's check verifies.
type PropConfig struct {
	ID          string     `json:"id"`
	Packages    []string   `json:"packages"`
	Specs       []string   `json:"specs"`     // contract files under /verif/contracts
	Functions   []string   `json:"functions"` // contract keys verified in both tiers
	Thorough    []string   `json:"thorough_functions"`
	Lemmas      []string   `json:"lemmas"`
	ThoroughLem []string   `json:"thorough_lemmas"`
	TrustedBase []string   `json:"trusted_base"`
	NotCovered  string     `json:"not_covered"`
	Bounded     []string   `json:"bounded"`
	Gno         *GnoTarget `json:"gno"`
	Parts       []string   `json:"parts"` // further configs (props/<name>.json) verified as part of this property
	QuickS      int        `json:"quick_timeout_s"`
	ThoroughS   int        `json:"thorough_timeout_s"`
}

type KnownFinding struct {
	Property   string `json:"property"`
	ID         string `json:"id"`
	Function   string `json:"function"`   // contract key
	Obligation string `json:"obligation"` // obligation name (instance/kind#n); prefix match on instance allowed with *
	When       string `json:"when"`       // input condition phi under which the real code violates the obligation
	What       string `json:"what"`
	Witness    string `json:"witness"` // go test file (under /verif/known) demonstrating the defect on the real code
	WitnessPkg string `json:"witness_pkg"`
	WitnessRun string `json:"witness_run"`
	Status     string `json:"status"` // "open" or "fixed: <commit>"
	x          *SX
}

type knownFile struct {
	Findings []*KnownFinding `json:"findings"`
}

func loadKnown() ([]*KnownFinding, error) {
	b, err := os.ReadFile(filepath.Join(verifRoot, "known_findings.json"))
	if err != nil {
		if os.IsNotExist(err) {
			return nil, nil
		}
		return nil, err
	}
	var kf knownFile
	if err := json.Unmarshal(b, &kf); err != nil {
		return nil, err
	}
	for _, k := range kf.Findings {
		if k.When != "" {
			x, err := parseSpec(k.When)
			if err != nil {
				return nil, fmt.Errorf("known finding %s: %v", k.ID, err)
			}
			k.x = x
		}
	}
	return kf.Findings, nil
}

func (k *KnownFinding) open() bool { return !strings.HasPrefix(k.Status, "fixed") }

func (k *KnownFinding) matches(oblName string) bool {
	if strings.HasSuffix(k.Obligation, "*") {
		return strings.HasPrefix(oblName, strings.TrimSuffix(k.Obligation, "*"))
	}
	return k.Obligation == oblName
}

type violation struct {
	obl    *Obligation
	vc     *VC
	reason string
	replay string
	noIn   bool
}

func cmdCheck(argv []string) int {
	fs := flag.NewFlagSet("check", flag.ExitOnError)
	tier := fs.String("tier", "quick", "quick|thorough")
	repo := fs.String("repo", "/repo", "repository root")
	if len(argv) < 1 {
		usage()
	}
	id := argv[0]
	fs.Parse(argv[1:])
	if t := os.Getenv("VERIF_TIER"); t != "" && !flagSet(fs, "tier") {
		*tier = t
	}
	seed := 0
	if s := os.Getenv("VERIF_SEED"); s != "" {
		seed, _ = strconv.Atoi(s)
	}
	t0 := time.Now()
	var cfg PropConfig
	b, err := os.ReadFile(filepath.Join(verifRoot, "props", id+".json"))
	if err != nil {
		fmt.Fprintln(os.Stderr, "no such property config:", err)
		return 2
	}
	if err := json.Unmarshal(b, &cfg); err != nil {
		fmt.Fprintln(os.Stderr, "bad property config:", err)
		return 2
	}
	known, err := loadKnown()
	if err != nil {
		fmt.Fprintln(os.Stderr, "known_findings.json:", err)
		return 2
	}
	var openKnown []*KnownFinding
	for _, k := range known {
		if k.Property == id && k.open() {
			openKnown = append(openKnown, k)
		}
	}
	var viols []violation
	var vcs []*VC
	var frs []*FuncResult
	var cleanups []func()
	var engines []*Engine
	defer func() {
		for _, f := range cleanups {
			f()
		}
	}()
	// a property may be verified in several parts (e.g. a Gno package through the Gno
	// front end plus Go packages of /repo): each part gets its own engine
	cfgs := []PropConfig{cfg}
	for _, pn := range cfg.Parts {
		var pc PropConfig
		pb, err := os.ReadFile(filepath.Join(verifRoot, "props", pn+".json"))
		if err == nil {
			err = json.Unmarshal(pb, &pc)
		}
		if err != nil {
			fmt.Fprintln(os.Stderr, "bad part config "+pn+":", err)
			return 2
		}
		cfgs = append(cfgs, pc)
		cfg.TrustedBase = append(cfg.TrustedBase, pc.TrustedBase...)
	}
	for _, cfg := range cfgs {
		e := newEngine(*repo)
		e.known = openKnown
		e.tier = *tier
		engines = append(engines, e)
		pkgs := cfg.Packages
		var loadErr error
		if cfg.Gno != nil {
			// Gno target: extract the .gno package from /repo's working tree on every run
			tmp, pat, err := prepareGno(*repo, *cfg.Gno, nil)
			if tmp != "" {
				cleanups = append(cleanups, func() { os.RemoveAll(tmp) })
			}
			if err != nil {
				loadErr = fmt.Errorf("gno front end: %v", err)
			}
			e.repo = tmp
			pkgs = []string{pat}
		}
		if loadErr == nil {
			loadErr = e.load(pkgs)
		}
		if loadErr == nil {
			for _, s := range cfg.Specs {
				if err := e.contracts.loadContractFile(filepath.Join(verifRoot, "contracts", s), ""); err != nil {
					loadErr = err
					break
				}
			}
		}
		if loadErr == nil {
			loadErr = e.contracts.parseAll()
		}
		if loadErr != nil {
			// the tree does not load (does not compile with -tags verif, or a contract file is broken)
			fmt.Fprintln(os.Stderr, "load error:", loadErr)
			viols = append(viols, violation{reason: "load: " + loadErr.Error(), noIn: true})
		} else {
			funcs := append([]string{}, cfg.Functions...)
			lemmas := append([]string{}, cfg.Lemmas...)
			if *tier == "thorough" {
				funcs = append(funcs, cfg.Thorough...)
				lemmas = append(lemmas, cfg.ThoroughLem...)
			}
			for _, k := range funcs {
				c := e.contracts.Funcs[k]
				if c == nil {
					viols = append(viols, violation{reason: "binding: no contract named " + k + " (contract file missing or renamed)", noIn: true})
					continue
				}
				fr := e.verifyContract(c)
				frs = append(frs, fr)
				vcs = append(vcs, fr.VCs...)
				if fr.Err != "" {
					viols = append(viols, violation{reason: fr.Err, noIn: true})
				}
			}
			for _, ln := range lemmas {
				found := false
				for _, l := range e.contracts.Lemmas {
					if l.Pkg+".lemma:"+l.Name == ln {
						vcs = append(vcs, e.verifyLemma(l))
						found = true
					}
				}
				if !found {
					viols = append(viols, violation{reason: "binding: no lemma named " + ln, noIn: true})
				}
			}
			// lemmas the verified functions relied on are discharged in the same run
			done := map[*Lemma]bool{}
			for changed := true; changed; {
				changed = false
				for _, l := range e.contracts.Lemmas {
					if e.usedLemmas[l] && !done[l] {
						done[l] = true
						changed = true
						already := false
						for _, ln := range lemmas {
							already = already || l.Pkg+".lemma:"+l.Name == ln
						}
						if !already {
							vcs = append(vcs, e.verifyLemma(l))
						}
					}
				}
			}
		}
	}
	dir, _ := os.MkdirTemp("", "gocv-"+id+"-")
	defer os.RemoveAll(dir)
	// per-obligation limit of the quick tier: every obligation of the unchanged tree is decided
	// in under 6 s on an idle 16-core machine (evidence: slowest_obligations), so 45 s leaves
	// room for a loaded or slower machine; it only costs time when something is wrong
	qs, fsec := 2, 45
	if cfg.QuickS > 0 {
		fsec = cfg.QuickS
	}
	if *tier == "thorough" {
		fsec = 300
		if cfg.ThoroughS > 0 {
			fsec = cfg.ThoroughS
		}
	}
	solveAll(vcs, solveCfg{dir: dir, quickS: qs, fullS: fsec, workers: 8})

	// collect results
	nObl, nDis := 0, 0
	byBackend := map[string]int{}
	solverTime := 0.0
	var samples []map[string]any
	assumptions := map[string]bool{}
	var funcsUnder []string
	knownHit := map[string]*Obligation{}
	var slowest []*Obligation
	for _, vc := range vcs {
		funcsUnder = append(funcsUnder, vc.Name)
		for a := range vc.assumed {
			assumptions[a] = true
		}
		if len(vc.errs) > 0 {
			viols = append(viols, violation{vc: vc, reason: "function left the verifiable subset: " + strings.Join(vc.errs, "; "), noIn: true})
		}
		for _, o := range vc.obls {
			nObl++
			solverTime += o.TimeS
			slowest = append(slowest, o)
			if o.Status == "proved" {
				nDis++
				byBackend[o.Solver]++
				if o.Known != nil {
					knownHit[o.Known.ID] = o
				}
			} else {
				viols = append(viols, violation{obl: o, vc: vc})
			}
			if len(samples) < 12 && o.Solver != "trivial" {
				samples = append(samples, map[string]any{"obligation": o.Name, "kind": o.Kind, "text": o.Text, "status": o.Status, "backend": o.Solver, "time_s": round3(o.TimeS), "smt_bytes": o.SMTSize})
			}
		}
	}
	// known findings: confirm each witness still fails on the real code
	var knownLines []string
	var knownEv []map[string]any
	for _, k := range openKnown {
		o := knownHit[k.ID]
		st := "obligation-not-generated"
		if o != nil {
			st = "proved-outside-condition"
		}
		ok, out := runWitness(k, *repo)
		if ok {
			knownLines = append(knownLines, fmt.Sprintf("KNOWN-FINDING: property=%s %s: %s", id, k.ID, k.What))
		} else {
			knownLines = append(knownLines, fmt.Sprintf("STALE-FINDING: property=%s %s: witness no longer reproduces (%s)", id, k.ID, firstLines(out, 2)))
		}
		knownEv = append(knownEv, map[string]any{"id": k.ID, "obligation": k.Obligation, "when": k.When, "status": st, "witness_reproduces": ok})
	}

	// replays and VIOLATION lines
	rdir := filepath.Join(outRoot(), "replays", id)
	var vlines []string
	if len(viols) > 0 {
		os.RemoveAll(rdir) // replays of an earlier run
		os.MkdirAll(rdir, 0o755)
	}
	// one VIOLATION line per function under contract: the first failed obligation whose
	// counterexample replays on the real code, else the first failed obligation
	groupOf := func(v *violation) string {
		if v.vc != nil && v.vc.contract != nil {
			return v.vc.contract.Key()
		}
		return v.reason
	}
	confirmed := map[string]bool{}
	tried := map[string]int{}
	vlines = make([]string, len(viols))
	for i := range viols {
		v := &viols[i]
		g := groupOf(v)
		if confirmed[g] || tried[g] >= 3 {
			continue // further failed obligations of the same function are listed without their own line
		}
		tried[g]++
		v.replay, v.noIn = writeReplay(nil, id, rdir, v, *repo)
		if !v.noIn {
			confirmed[g] = true
		}
	}
	printed := map[string]bool{}
	for pass := 0; pass < 2; pass++ {
		for i := range viols {
			v := &viols[i]
			g := groupOf(v)
			if printed[g] || v.replay == "" || (pass == 0 && v.noIn) {
				continue
			}
			printed[g] = true
			vlines[i] = fmt.Sprintf("VIOLATION property=%s replay=%s", id, v.replay)
			if v.noIn {
				vlines[i] += " no-failing-input-found"
			}
		}
	}

	var assumeList []string
	for a := range assumptions {
		assumeList = append(assumeList, a)
	}
	sort.Strings(assumeList)
	assumeList = append(assumeList,
		"int and uint are 64 bits wide (amd64/arm64)",
		"sequential execution: sync.Mutex/RWMutex operations are dropped",
		"the go/ssa lowering (x/tools v0.50.0) and the gocv VC generator are trusted; mitigated by the must-fail corpus (selftest)",
		"SMT solvers z3 4.8.12, z3 5.1.0, cvc5 1.0.3 are trusted for unsat answers")
	if cfg.NotCovered != "" {
		assumeList = append(assumeList, "NOT COVERED by this check: "+cfg.NotCovered)
	}
	sort.Strings(funcsUnder)
	ev := map[string]any{
		"property_id": id,
		"tier":        *tier,
		"seed":        seed,
		"level":       "proof",
		"coverage": map[string]any{
			"obligations":              nObl,
			"discharged":               nDis,
			"checker_cmd":              fmt.Sprintf("/verif/bin/check %s --tier %s", id, *tier),
			"trusted_base":             append([]string{"gocv VC generator (/verif/engine)", "golang.org/x/tools/go/ssa v0.50.0", "z3 4.8.12 / z3 5.1.0 / cvc5 1.0.3"}, cfg.TrustedBase...),
			"functions_under_contract": funcsUnder,
			"by_backend":               byBackend,
			"solver_time_s":            round3(solverTime),
			"samples":                  samples,
			"bounded":                  cfg.Bounded,
			"known_findings":           knownEv,
			"dropped_by_translation":   []string{"goroutines/channels/select (functions using them are outside the subset)", "mutex operations (no-ops)", "logging and fmt formatting (opaque)"},
			"per_obligation_timeout_s": fsec,
			"slowest_obligations": func() []string {
				// the margin to the per-obligation time limit, measured on this run
				sort.Slice(slowest, func(i, j int) bool { return slowest[i].TimeS > slowest[j].TimeS })
				var out []string
				for i := 0; i < len(slowest) && i < 5; i++ {
					out = append(out, fmt.Sprintf("%s %.1fs [%s]", slowest[i].Name, slowest[i].TimeS, slowest[i].Solver))
				}
				return out
			}(),
			"split_cases_left_to_thorough_tier": func() int {
				n := 0
				for _, e := range engines {
					n += e.skippedCases
				}
				return n
			}(),
			"split_cases_attempted_in_no_tier": func() int {
				// cases outside a `thorough` list: the function is then proved for the listed
				// cases only (each for all inputs of that case), not for all inputs
				n := 0
				for _, e := range engines {
					n += e.neverCases
				}
				return n
			}(),
		},
		"assumptions": assumeList,
		"wall_s":      round3(time.Since(t0).Seconds()),
		"violations":  len(viols),
	}
	os.MkdirAll(filepath.Join(outRoot(), "evidence"), 0o755)
	eb, _ := json.MarshalIndent(ev, "", " ")
	os.WriteFile(filepath.Join(outRoot(), "evidence", id+".json"), append(eb, '\n'), 0o644)

	fmt.Printf("property %s tier %s: %d functions/lemmas, %d obligations, %d discharged, %.1fs\n", id, *tier, len(vcs), nObl, nDis, time.Since(t0).Seconds())
	for _, l := range knownLines {
		fmt.Println(l)
	}
	for i, v := range viols {
		if v.obl != nil {
			fmt.Printf("  failed obligation %s [%s by %s]: %s @%s\n", v.obl.Name, v.obl.Status, v.obl.Solver, v.obl.Text, v.obl.Pos)
		} else {
			fmt.Printf("  %s\n", v.reason)
		}
		if vlines[i] != "" {
			fmt.Println(vlines[i])
		}
	}
	if len(viols) > 0 {
		return 1
	}
	return 0
}

func flagSet(fs *flag.FlagSet, name string) bool {
	found := false
	fs.Visit(func(f *flag.Flag) {
		if f.Name == name {
			found = true
		}
	})
	return found
}

func round3(f float64) float64 { return float64(int(f*1000+0.5)) / 1000 }

type replayFile struct {
	Property   string   `json:"property"`
	Obligation string   `json:"obligation"`
	Kind       string   `json:"kind"`
	Text       string   `json:"text"`
	Position   string   `json:"position"`
	Status     string   `json:"status"`
	Reason     string   `json:"reason,omitempty"`
	Solver     string   `json:"solver"`
	SolverOut  string   `json:"solver_output"`
	Inputs     []string `json:"inputs,omitempty"`
	TestPkg    string   `json:"test_pkg,omitempty"`
	TestSrc    string   `json:"test_src,omitempty"`
	TestCmd    string   `json:"test_cmd,omitempty"`
	Observed   string   `json:"observed,omitempty"`
	Confirmed  bool     `json:"confirmed"`
	SMT        string   `json:"smt,omitempty"`
}

// writeReplay stores what is known about a failed obligation; when the solver
// produced a model over scalar inputs, the counterexample is replayed on the real code.
func writeReplay(e *Engine, id, rdir string, v *violation, repo string) (string, bool) {
	if e == nil && v.vc != nil {
		e = v.vc.eng // the engine of the part this obligation belongs to
	}
	rf := replayFile{Property: id}
	name := "load"
	if v.obl != nil {
		o := v.obl
		name = smtQuote(o.Name)
		rf.Obligation, rf.Kind, rf.Text, rf.Position, rf.Status, rf.Solver = o.Name, o.Kind, o.Text, o.Pos, o.Status, o.Solver
		rf.SolverOut = firstLines(o.Model+" "+o.Detail, 40)
		smt := v.vc.smtFor(o, true)
		if len(smt) < 400000 {
			rf.SMT = smt
		}
		if o.Status == "failed" && !o.ExpectSat && o.Model != "" {
			replayModel(e, &rf, v, repo)
		}
	} else {
		rf.Reason = v.reason
		rf.Status = "undecided"
		if v.vc != nil {
			name = smtQuote(v.vc.Name) + "_subset"
			rf.Obligation = v.vc.Name + "/binding"
		} else {
			name = fmt.Sprintf("binding_%d", len(v.reason))
			rf.Obligation = "binding"
		}
	}
	path := filepath.Join(rdir, name+".json")
	for i := 2; ; i++ {
		// distinct obligations may mangle to one name (split cases): never overwrite a replay
		if _, err := os.Stat(path); err != nil {
			break
		}
		path = filepath.Join(rdir, fmt.Sprintf("%s~%d.json", name, i))
	}
	b, _ := json.MarshalIndent(rf, "", " ")
	os.WriteFile(path, append(b, '\n'), 0o644)
	return path, !rf.Confirmed
}

func cmdReplay(argv []string) int {
	if len(argv) < 1 {
		usage()
	}
	b, err := os.ReadFile(argv[0])
	if err != nil {
		fmt.Fprintln(os.Stderr, err)
		return 2
	}
	var rf replayFile
	if err := json.Unmarshal(b, &rf); err != nil {
		fmt.Fprintln(os.Stderr, err)
		return 2
	}
	fmt.Printf("obligation: %s\n  %s\n  status: %s (%s)\n", rf.Obligation, rf.Text, rf.Status, rf.Solver)
	if rf.TestSrc == "" {
		fmt.Println("no executable counterexample was recorded (no-failing-input-found); solver output:")
		fmt.Println(rf.SolverOut)
		return 1
	}
	out, _ := runOverlayTest("/repo", rf.TestPkg, rf.TestSrc, "TestGocvReplay")
	fmt.Println(out)
	return 1
}
