package main

import (
	"fmt"
	"go/types"
	"math/big"
	"sort"
	"strings"

	"golang.org/x/tools/go/ssa"
)

// Val is an engine-level value: a Go-typed SMT term, a tuple, a location
// (pointer with a path into a heap component) or a static function value.
type Val struct {
	Ty   types.Type
	T    Term
	Tup  []Val
	Loc  *Loc
	Fn   *ssa.Function
	Bind []Val
	View *arrView // slice of an array that lives inside another object (no term; copy/len only)
}

// arrView is arr[lo:lo+n] of the array stored at loc.
type arrView struct {
	loc   *Loc
	lo, n Term
}

// Loc designates a memory location: a heap component, a reference (and index
// for slice elements) and a path of field/index steps inside the stored value.
type Loc struct {
	Root string // F (struct field), E (slice element), C (cell)
	Comp string
	Sort string // sort of the component array
	Ref  Term
	Idx  Term // only for E
	Path []Step
	Ty   types.Type // type of the designated value
}

type Step struct {
	Field  int
	Struct types.Type // struct type containing the field (for Field steps)
	Index  *Term      // array index step
	ArrTy  types.Type
}

// State is the symbolic state at a program point.
type State struct {
	reach Term
	heap  map[string]Term
	alloc Term
}

func (s *State) clone() *State {
	h := make(map[string]Term, len(s.heap))
	for k, v := range s.heap {
		h[k] = v
	}
	return &State{reach: s.reach, heap: h, alloc: s.alloc}
}

type Obligation struct {
	Name      string
	Kind      string
	Func      string
	Prefix    int
	Reach     Term
	Goal      Term
	ExpectSat bool
	Text      string
	Pos       string
	// result
	Status    string // proved | failed | unknown | error (for ExpectSat: proved means sat)
	Solver    string
	TimeS     float64
	Model     string
	SMTSize   int
	Detail    string
	Inputs    []string // names of input constants for get-value
	Known     *KnownFinding
	KnownTerm Term
}

// VC accumulates the verification conditions of one function instance.
type VC struct {
	eng        *Engine
	Name       string // display name of the instance
	contract   *Contract
	bv         bool
	mixed      bool
	wraps      bool
	strSMT     bool
	script     []string
	dtOrder    []string          // datatype declarations in dependency order
	dtDone     map[string]string // go type string -> sort name
	structOf   map[string]*types.Struct
	obls       []*Obligation
	ctr        map[string]int
	strLits    map[string]Term
	assumed    map[string]bool // assumption notes
	compSort   map[string]string
	compDecl   map[string]bool
	subst      map[string]types.Type // type parameter name -> type
	inputs     []string
	specDecl   map[string]bool
	preamble   []string             // spec function definitions (after datatypes)
	panicOK    func(st *State) Term // condition under which a panic is allowed (entry-state expr)
	onPanic    func(st *State, what string)
	alloc0     Term
	entry      *State
	oblCount   map[string]int
	uf         map[string]bool
	errs       []string
	tags       map[string]int
	recSpecMap map[string]*recSpec
	retTerms   []Term
	knownTerms map[*KnownFinding]Term
	recDecl    map[string]string // define-fun-rec line -> declare-fun line
	constLens  map[string]int64  // slice terms with a literal length (varargs arrays)
	boxed      map[string]Val    // interface term -> boxed value
	splitCases []splitCase       // the case of each `split` clause this VC covers
	entryVars  map[string]Val    // parameters of the function under verification (entry values)
	noInst     bool              // render queries without engine-side quantifier instances
	bridged    map[string]bool   // bit-vector constants that came from an integer (int2bv)
	marshalled []marshalRec      // amino encodings produced so far in this function
}

func newVC(eng *Engine, name string, c *Contract) *VC {
	vc := &VC{eng: eng, Name: name, contract: c, dtDone: map[string]string{}, structOf: map[string]*types.Struct{},
		ctr: map[string]int{}, strLits: map[string]Term{}, assumed: map[string]bool{}, compSort: map[string]string{},
		compDecl: map[string]bool{}, subst: map[string]types.Type{}, specDecl: map[string]bool{}, oblCount: map[string]int{}, uf: map[string]bool{}}
	if c != nil {
		vc.bv = c.Arith == "bv"
		vc.mixed = c.Arith == "mixed"
		vc.wraps = c.Wraps
		vc.strSMT = c.Strings == "smt"
	}
	return vc
}

func (vc *VC) emit(s string) { vc.script = append(vc.script, s) }

func (vc *VC) freshName(prefix string) string {
	prefix = smtQuote(prefix)
	vc.ctr[prefix]++
	return fmt.Sprintf("%s!%d", prefix, vc.ctr[prefix])
}

func (vc *VC) fresh(prefix, sort string) Term {
	n := vc.freshName(prefix)
	vc.emit(fmt.Sprintf("(declare-const %s %s)", n, sort))
	return Term{n, sort}
}

func (vc *VC) define(prefix string, t Term) Term {
	if !strings.ContainsAny(t.S, " (") { // atomic
		return t
	}
	if len(t.S) < 24 && !strings.Contains(t.S, "ite") {
		return t
	}
	if hasFreeBound(t.S) {
		return t // mentions bound variables / spec-function formals: cannot be named globally
	}
	n := vc.freshName(prefix)
	vc.emit(fmt.Sprintf("(define-fun %s () %s %s)", n, t.Sort, t.S))
	return Term{n, t.Sort}
}

// nameInt binds an integer term to a fresh constant (declare + equality).
func (vc *VC) nameInt(prefix string, t Term) Term {
	if !strings.ContainsAny(t.S, " (") {
		return t
	}
	if _, ok := litOf(t); ok {
		return t
	}
	c := vc.fresh(prefix, t.Sort)
	vc.emit("(assert (= " + c.S + " " + t.S + "))")
	return c
}

// assert adds an assumption; top-level conjunctions are split into separate
// assertions so that relevance filtering (lightQuery) works per conjunct.
func (vc *VC) assert(t Term) {
	if t.IsTrue() {
		return
	}
	if strings.HasPrefix(t.S, "(and ") {
		for _, a := range sexpArgs(t.S) {
			vc.assert(Term{a, SBool})
		}
		return
	}
	vc.emit("(assert " + t.S + ")")
}

func (vc *VC) assume(st *State, t Term) {
	if strings.HasPrefix(t.S, "(and ") {
		for _, a := range sexpArgs(t.S) {
			vc.assume(st, Term{a, SBool})
		}
		return
	}
	vc.assert(implies(st.reach, t))
}

// sexpArgs returns the top-level arguments of "(op a1 a2 ...)".
func sexpArgs(s string) []string {
	s = s[1 : len(s)-1]
	i := strings.IndexByte(s, ' ')
	if i < 0 {
		return nil
	}
	s = s[i+1:]
	var out []string
	d, start := 0, 0
	for j := 0; j < len(s); j++ {
		switch s[j] {
		case '(':
			d++
		case ')':
			d--
		case '"':
			// skip string literal
			for j++; j < len(s) && s[j] != '"'; j++ {
			}
		case ' ':
			if d == 0 {
				if j > start {
					out = append(out, s[start:j])
				}
				start = j + 1
			}
		}
	}
	if start < len(s) {
		out = append(out, s[start:])
	}
	return out
}

func (vc *VC) note(s string) { vc.assumed[s] = true }

// skolemize replaces outermost universal quantifiers of a goal (under implications)
// by fresh constants: proving the body for arbitrary constants proves the forall,
// and the constants give the engine ground index terms to instantiate assumptions at.
func (vc *VC) skolemize(goal string) string {
	if strings.HasPrefix(goal, "(=> ") {
		inner := goal[len("(=> ") : len(goal)-1]
		a, rest := splitSexp(inner)
		b, tail := splitSexp(rest)
		if strings.TrimSpace(tail) == "" {
			return "(=> " + a + " " + vc.skolemize(b) + ")"
		}
		return goal
	}
	if strings.HasPrefix(goal, "(forall (") {
		inner := goal[len("(forall ") : len(goal)-1]
		binders, rest := splitSexp(inner)
		body, tail := splitSexp(rest)
		if strings.TrimSpace(tail) != "" {
			return goal
		}
		m := map[string]string{}
		b := binders[1 : len(binders)-1]
		for b = strings.TrimSpace(b); b != ""; b = strings.TrimSpace(b) {
			one, r := splitSexp(b)
			i := strings.IndexByte(one, ' ')
			name, srt := one[1:i], strings.TrimSpace(one[i+1:len(one)-1])
			sk := vc.fresh("sk_"+strings.TrimPrefix(name, "q_"), srt)
			m[name] = sk.S
			b = r
		}
		return vc.skolemize(substTokens(body, m))
	}
	return goal
}

func (vc *VC) oblige(st *State, kind, text string, goal Term) *Obligation {
	if strings.Contains(goal.S, "(forall (") {
		goal = Term{vc.skolemize(goal.S), SBool}
	}
	vc.oblCount[kind]++
	name := fmt.Sprintf("%s/%s#%d", vc.Name, kind, vc.oblCount[kind])
	o := &Obligation{Name: name, Kind: kind, Func: vc.Name, Prefix: len(vc.script), Reach: st.reach, Goal: goal, Text: text}
	if st.reach.IsFalse() || goal.IsTrue() {
		o.Status = "proved"
		o.Solver = "trivial"
	}
	for k, t := range vc.knownTerms {
		if k.matches(name) {
			o.Known, o.KnownTerm = k, t
		}
	}
	vc.obls = append(vc.obls, o)
	return o
}

func (vc *VC) cover(st *State, kind, text string) *Obligation {
	o := vc.oblige(st, kind, text, tFalse)
	o.ExpectSat = true
	o.Status = ""
	return o
}

// ---------- types and sorts ----------

func (vc *VC) resolve(t types.Type) types.Type {
	if tp, ok := t.(*types.TypeParam); ok {
		if r, ok := vc.subst[tp.Obj().Name()]; ok {
			return r
		}
	}
	return t
}

func (vc *VC) under(t types.Type) types.Type { return vc.resolve(t).Underlying() }

type intInfo struct {
	w      int
	signed bool
}

func (vc *VC) intInfo(t types.Type) (intInfo, bool) {
	b, ok := vc.under(t).(*types.Basic)
	if !ok {
		return intInfo{}, false
	}
	switch b.Kind() {
	case types.Int8:
		return intInfo{8, true}, true
	case types.Int16:
		return intInfo{16, true}, true
	case types.Int32:
		return intInfo{32, true}, true
	case types.Int64, types.Int:
		return intInfo{64, true}, true
	case types.Uint8:
		return intInfo{8, false}, true
	case types.Uint16:
		return intInfo{16, false}, true
	case types.Uint32:
		return intInfo{32, false}, true
	case types.Uint64, types.Uint, types.Uintptr:
		return intInfo{64, false}, true
	}
	return intInfo{}, false
}

func (ii intInfo) lo() *big.Int {
	if !ii.signed {
		return big.NewInt(0)
	}
	return new(big.Int).Neg(pow2(ii.w - 1))
}

func (ii intInfo) hi() *big.Int {
	if !ii.signed {
		return new(big.Int).Sub(pow2(ii.w), big.NewInt(1))
	}
	return new(big.Int).Sub(pow2(ii.w-1), big.NewInt(1))
}

func isUntypedInt(t types.Type) bool {
	b, ok := t.(*types.Basic)
	return ok && (b.Kind() == types.UntypedInt || b.Kind() == types.UntypedRune)
}

var specInt = types.Typ[types.UntypedInt]
var specBool = types.Typ[types.Bool]

func typeKey(t types.Type) string {
	return types.TypeString(t, func(p *types.Package) string {
		// package name, except where two packages share it (sync vs internal/sync)
		if strings.HasPrefix(p.Path(), "internal/") {
			return "i" + p.Name()
		}
		return p.Name()
	})
}

func mangle(s string) string {
	var b strings.Builder
	for _, r := range s {
		switch {
		case r >= 'a' && r <= 'z', r >= 'A' && r <= 'Z', r >= '0' && r <= '9':
			b.WriteRune(r)
		case r == '.':
			b.WriteByte('_')
		case r == '*':
			b.WriteString("P")
		case r == '[':
			b.WriteString("L")
		case r == ']':
			b.WriteString("R")
		default:
			b.WriteByte('_')
		}
	}
	return b.String()
}

// idxSort is the sort of Go int values (indices, lengths, refs are always Int).
func (vc *VC) sortOf(t types.Type) string {
	t = vc.resolve(t)
	switch u := t.Underlying().(type) {
	case *types.Basic:
		switch {
		case u.Info()&types.IsBoolean != 0:
			return SBool
		case u.Info()&types.IsInteger != 0:
			if isUntypedInt(u) {
				return SInt
			}
			if vc.bvType(t) {
				ii, _ := vc.intInfo(t)
				return bvSort(ii.w)
			}
			return SInt
		case u.Info()&types.IsString != 0:
			if vc.strSMT {
				return "String"
			}
			return SReal
		case u.Kind() == types.UnsafePointer:
			return SInt
		case u.Kind() == types.UntypedNil:
			return SInt
		case u.Info()&types.IsFloat != 0:
			return SReal
		}
	case *types.Pointer, *types.Map, *types.Chan, *types.Signature, *types.Interface:
		return SInt
	case *types.Slice:
		return SSlice
	case *types.Array:
		return arraySort(SInt, vc.sortOf(u.Elem()))
	case *types.Struct:
		return vc.structSort(t, u)
	case *types.Tuple:
		return "TUPLE"
	}
	panic(engErr("unsupported type " + t.String()))
}

func (vc *VC) structSort(t types.Type, u *types.Struct) string {
	key := typeKey(t)
	if s, ok := vc.dtDone[key]; ok {
		return s
	}
	name := "S_" + mangle(key)
	if len(name) > 60 {
		name = fmt.Sprintf("%s_%d", name[:50], len(vc.dtDone))
	}
	vc.dtDone[key] = name
	vc.structOf[name] = u
	var fs []string
	for i := 0; i < u.NumFields(); i++ {
		fs = append(fs, fmt.Sprintf("(%s %s)", vc.fieldAcc(name, u, i), vc.sortOf(u.Field(i).Type())))
	}
	if u.NumFields() == 0 {
		fs = append(fs, fmt.Sprintf("(%s_dummy Bool)", name))
	}
	vc.dtOrder = append(vc.dtOrder, fmt.Sprintf("(declare-datatypes ((%s 0)) (((mk_%s %s))))", name, name, strings.Join(fs, " ")))
	return name
}

func (vc *VC) fieldAcc(sname string, u *types.Struct, i int) string {
	if u.Field(i).Name() == "_" {
		// blank fields may repeat: the accessor carries the field index
		return fmt.Sprintf("%s._%d", sname, i)
	}
	return fmt.Sprintf("%s.%s", sname, smtQuote(u.Field(i).Name()))
}

func (vc *VC) getField(v Term, t types.Type, i int) Term {
	u := vc.under(t).(*types.Struct)
	sname := vc.sortOf(t)
	return app(vc.sortOf(u.Field(i).Type()), vc.fieldAcc(sname, u, i), v)
}

func (vc *VC) setField(v Term, t types.Type, i int, nv Term) Term {
	u := vc.under(t).(*types.Struct)
	sname := vc.sortOf(t)
	args := make([]Term, u.NumFields())
	for j := 0; j < u.NumFields(); j++ {
		if j == i {
			args[j] = nv
		} else {
			args[j] = vc.getField(v, t, j)
		}
	}
	return app(sname, "mk_"+sname, args...)
}

func (vc *VC) mkStruct(t types.Type, fields []Term) Term {
	sname := vc.sortOf(t)
	if len(fields) == 0 {
		return app(sname, "mk_"+sname, tTrue)
	}
	return app(sname, "mk_"+sname, fields...)
}

func mkSlice(arr, off, ln, cp Term) Term { return app(SSlice, "mk-slice", arr, off, ln, cp) }
func sArr(s Term) Term                   { return app(SInt, "s.arr", s) }
func sOff(s Term) Term                   { return app(SInt, "s.off", s) }
func sLen(s Term) Term                   { return app(SInt, "s.len", s) }
func sCap(s Term) Term                   { return app(SInt, "s.cap", s) }

var nilSlice = mkSlice(intLit(0), intLit(0), intLit(0), intLit(0))

// intTerm builds the literal for an integer of Go type t in the current mode.
func (vc *VC) intConst(v *big.Int, t types.Type) Term {
	if vc.bvType(t) {
		ii, _ := vc.intInfo(t)
		return bvLit(v, ii.w)
	}
	return bigLit(v)
}

func (vc *VC) zero(t types.Type) Term {
	t = vc.resolve(t)
	switch u := t.Underlying().(type) {
	case *types.Basic:
		switch {
		case u.Info()&types.IsBoolean != 0:
			return tFalse
		case u.Info()&types.IsInteger != 0:
			return vc.intConst(big.NewInt(0), t)
		case u.Info()&types.IsString != 0:
			return vc.strLit("")
		default:
			return Term{"0", vc.sortOf(t)}
		}
	case *types.Pointer, *types.Map, *types.Chan, *types.Signature, *types.Interface:
		return intLit(0)
	case *types.Slice:
		return nilSlice
	case *types.Array:
		s := vc.sortOf(t)
		return Term{fmt.Sprintf("((as const %s) %s)", s, vc.zero(u.Elem()).S), s}
	case *types.Struct:
		var fs []Term
		for i := 0; i < u.NumFields(); i++ {
			fs = append(fs, vc.zero(u.Field(i).Type()))
		}
		return vc.mkStruct(t, fs)
	}
	panic(engErr("zero: unsupported type " + t.String()))
}

func (vc *VC) strLit(s string) Term {
	if vc.strSMT {
		return Term{smtString(s), "String"}
	}
	if s == "" {
		return Term{"0.0", SReal}
	}
	if t, ok := vc.strLits[s]; ok {
		return t
	}
	// order axioms relative to the already known literals
	t := vc.fresh("strlit", SReal)
	vc.assert(app(SBool, ">", t, Term{"0.0", SReal}))
	keys := make([]string, 0, len(vc.strLits))
	for k := range vc.strLits {
		keys = append(keys, k)
	}
	sort.Strings(keys)
	for _, k := range keys {
		if k < s {
			vc.assert(app(SBool, "<", vc.strLits[k], t))
		} else {
			vc.assert(app(SBool, "<", t, vc.strLits[k]))
		}
	}
	vc.strLits[s] = t
	return t
}

func smtString(s string) string {
	var b strings.Builder
	b.WriteByte('"')
	for _, c := range []byte(s) {
		switch {
		case c == '"':
			b.WriteString(`""`)
		case c >= 32 && c < 127 && c != '\\':
			b.WriteByte(c)
		default:
			fmt.Fprintf(&b, "\\u{%x}", c)
		}
	}
	b.WriteByte('"')
	return b.String()
}

// typeInv returns the constraint every value of Go type t satisfies
// (integer range, slice header sanity, references below the allocation
// counter). alloc may be the zero Term to skip reference bounds.
func (vc *VC) typeInv(v Term, t types.Type, alloc Term) Term {
	t = vc.resolve(t)
	switch u := t.Underlying().(type) {
	case *types.Basic:
		if u.Info()&types.IsInteger != 0 && !isUntypedInt(u) && !vc.bvType(t) {
			ii, _ := vc.intInfo(t)
			return and(le(bigLit(ii.lo()), v), le(v, bigLit(ii.hi())))
		}
		if u.Info()&types.IsString != 0 && !vc.strSMT {
			return app(SBool, ">=", v, Term{"0.0", SReal})
		}
	case *types.Pointer, *types.Map, *types.Chan:
		c := le(intLit(0), v)
		if alloc.S != "" {
			c = and(c, lt(v, alloc))
		}
		return c
	case *types.Interface:
		return le(intLit(0), v)
	case *types.Slice:
		c := and(le(intLit(0), sArr(v)), le(intLit(0), sOff(v)), le(intLit(0), sLen(v)), le(sLen(v), sCap(v)),
			implies(eq(sArr(v), intLit(0)), and(eq(sCap(v), intLit(0)), eq(sOff(v), intLit(0)))),
			// no slice spans more than 2^48 elements (256 TiB of bytes): an assumption
			// about the machine, reported with every evidence file
			le(add(sOff(v), sCap(v)), bigLit(pow2(48))))
		if alloc.S != "" {
			c = and(c, lt(sArr(v), alloc))
		}
		return c
	case *types.Struct:
		var cs []Term
		for i := 0; i < u.NumFields(); i++ {
			cs = append(cs, vc.typeInv(vc.getField(v, t, i), u.Field(i).Type(), alloc))
		}
		return and(cs...)
	case *types.Array:
		et := u.Elem()
		if _, isInt := vc.intInfo(et); isInt && !vc.bvType(et) && u.Len() <= 8 {
			var cs []Term
			for i := int64(0); i < u.Len(); i++ {
				cs = append(cs, vc.typeInv(sel(v, intLit(i)), et, alloc))
			}
			return and(cs...)
		}
	}
	return tTrue
}

func (vc *VC) assumeInv(v Val, alloc Term) {
	if len(v.Tup) > 0 {
		for _, x := range v.Tup {
			vc.assumeInv(x, alloc)
		}
		return
	}
	if v.Ty == nil || v.T.S == "" {
		return
	}
	vc.assert(vc.typeInv(v.T, v.Ty, alloc))
}

// ---------- heap ----------

func (vc *VC) heapGet(st *State, comp, sort string) Term {
	if t, ok := st.heap[comp]; ok {
		return t
	}
	name := comp + "!0"
	if !vc.compDecl[comp] {
		vc.compDecl[comp] = true
		vc.compSort[comp] = sort
		vc.emit(fmt.Sprintf("(declare-const %s %s)", name, sort))
	}
	return Term{name, sort}
}

func (vc *VC) heapSet(st *State, comp string, t Term) {
	if _, ok := vc.compSort[comp]; !ok {
		vc.compSort[comp] = t.Sort // a component first met through a write (e.g. a coarse havoc)
	}
	st.heap[comp] = vc.define(comp, t)
}

func (vc *VC) fieldComp(structTy types.Type, i int) (string, string) {
	u := vc.under(structTy).(*types.Struct)
	comp := "F_" + mangle(typeKey(vc.resolve(structTy))) + "_" + smtQuote(u.Field(i).Name())
	return comp, arraySort(SInt, vc.sortOf(u.Field(i).Type()))
}

func (vc *VC) elemComp(elemTy types.Type) (string, string) {
	es := vc.sortOf(elemTy)
	comp := "E_" + mangle(typeKey(vc.resolve(elemTy)))
	if _, ok := vc.intInfo(elemTy); ok {
		// integer element types of equal width/signedness share a component
		// only if they are the same Go type; keep per-type components.
	}
	return comp, arraySort(SInt, arraySort(SInt, es))
}

func (vc *VC) cellComp(ty types.Type) (string, string) {
	return "C_" + mangle(typeKey(vc.resolve(ty))), arraySort(SInt, vc.sortOf(ty))
}

// locOfRef turns a plain reference of pointer type into a Loc.
func (vc *VC) locOfPtr(v Val) *Loc {
	if v.Loc != nil {
		return v.Loc
	}
	pt, ok := vc.under(v.Ty).(*types.Pointer)
	if !ok {
		panic(engErr("locOfPtr: not a pointer: " + v.Ty.String()))
	}
	elem := pt.Elem()
	comp, sort := vc.cellComp(elem)
	return &Loc{Root: "C", Comp: comp, Sort: sort, Ref: v.T, Ty: elem}
}

func (vc *VC) loadBase(st *State, l *Loc) Term {
	h := vc.heapGet(st, l.Comp, l.Sort)
	if l.Root == "E" {
		return sel(sel(h, l.Ref), l.Idx)
	}
	return sel(h, l.Ref)
}

func (vc *VC) followPath(v Term, path []Step) Term {
	for _, s := range path {
		if s.Index != nil {
			v = sel(v, *s.Index)
		} else {
			v = vc.getField(v, s.Struct, s.Field)
		}
	}
	return v
}

func (vc *VC) updatePath(v Term, path []Step, nv Term) Term {
	if len(path) == 0 {
		return nv
	}
	s := path[0]
	if s.Index != nil {
		return store(v, *s.Index, vc.updatePath(sel(v, *s.Index), path[1:], nv))
	}
	return vc.setField(v, s.Struct, s.Field, vc.updatePath(vc.getField(v, s.Struct, s.Field), path[1:], nv))
}

func (vc *VC) load(st *State, l *Loc) Term {
	if l.Root == "C" && len(l.Path) == 0 {
		if u, ok := vc.under(l.Ty).(*types.Struct); ok {
			// a struct behind a plain reference is stored field-wise
			var fs []Term
			for i := 0; i < u.NumFields(); i++ {
				comp, sort := vc.fieldComp(l.Ty, i)
				fs = append(fs, sel(vc.heapGet(st, comp, sort), l.Ref))
			}
			return vc.mkStruct(l.Ty, fs)
		}
	}
	return vc.followPath(vc.loadBase(st, l), l.Path)
}

func (vc *VC) storeLoc(st *State, l *Loc, v Term) {
	if l.Root == "C" && len(l.Path) == 0 {
		if u, ok := vc.under(l.Ty).(*types.Struct); ok {
			for i := 0; i < u.NumFields(); i++ {
				comp, sort := vc.fieldComp(l.Ty, i)
				h := vc.heapGet(st, comp, sort)
				vc.heapSet(st, comp, store(h, l.Ref, vc.getField(v, l.Ty, i)))
			}
			return
		}
	}
	h := vc.heapGet(st, l.Comp, l.Sort)
	if l.Root == "E" {
		inner := sel(h, l.Ref)
		old := sel(inner, l.Idx)
		nv := vc.updatePath(old, l.Path, v)
		vc.heapSet(st, l.Comp, store(h, l.Ref, store(inner, l.Idx, nv)))
		return
	}
	old := sel(h, l.Ref)
	nv := vc.updatePath(old, l.Path, v)
	vc.heapSet(st, l.Comp, store(h, l.Ref, nv))
}

// fieldLoc: location of field i of the struct designated by base (a pointer value).
func (vc *VC) fieldLoc(base Val, structTy types.Type, i int) *Loc {
	u := vc.under(structTy).(*types.Struct)
	fty := u.Field(i).Type()
	if base.Loc != nil {
		l := *base.Loc
		l.Path = append(append([]Step{}, l.Path...), Step{Field: i, Struct: structTy})
		l.Ty = fty
		return &l
	}
	comp, sort := vc.fieldComp(structTy, i)
	return &Loc{Root: "F", Comp: comp, Sort: sort, Ref: base.T, Ty: fty}
}

type engErr string

func (e engErr) Error() string { return string(e) }
