package main

import (
	"fmt"
	"go/constant"
	"go/token"
	"go/types"
	"math/big"
	"strings"
)

// SpecCtx evaluates contract expressions to SMT terms.
type SpecCtx struct {
	vc    *VC
	vars  map[string]Val
	st    *State
	old   *State
	pkg   *types.Package
	depth int
	// heapParams, when non-nil, makes heap accesses go through formal
	// parameters of a recursive spec function (see specfun.go).
	hp *heapParams
	// base is the allocation counter at the entry of the contract's function
	// (zero Term: the verified function's own entry, vc.alloc0).
	base Term
}

func (sc *SpecCtx) with(vars map[string]Val) *SpecCtx {
	n := *sc
	n.vars = map[string]Val{}
	for k, v := range sc.vars {
		n.vars[k] = v
	}
	for k, v := range vars {
		n.vars[k] = v
	}
	return &n
}

func (sc *SpecCtx) fail(x *SX, msg string) {
	panic(engErr(fmt.Sprintf("spec: %s in `%s`", msg, x.String())))
}

func (sc *SpecCtx) evalBool(x *SX) Term {
	v := sc.eval(x)
	if v.T.Sort != SBool {
		sc.fail(x, "boolean expected, got "+v.T.Sort)
	}
	return v.T
}

func (sc *SpecCtx) lookupType(name string) types.Type {
	vc := sc.vc
	if t, ok := vc.subst[name]; ok {
		return t
	}
	switch name {
	case "Int":
		return specInt
	}
	if strings.Contains(name, "/") && !strings.HasPrefix(name, "map[") {
		// a type named by its full import path: "*github.com/x/y/pkg.T" (needed when the
		// package name alone is ambiguous or the package is only an indirect import)
		prefix, q := "", name
		for strings.HasPrefix(q, "*") || strings.HasPrefix(q, "[]") {
			if q[0] == '*' {
				prefix, q = prefix+"*", q[1:]
			} else {
				prefix, q = prefix+"[]", q[2:]
			}
		}
		if i := strings.LastIndex(q, "."); i > 0 {
			if p := vc.eng.pkgTypes(q[:i], nil); p != nil {
				if tn, ok := p.Scope().Lookup(q[i+1:]).(*types.TypeName); ok {
					var t types.Type = tn.Type()
					for k := len(prefix); k > 0; {
						if strings.HasSuffix(prefix[:k], "[]") {
							t = types.NewSlice(t)
							k -= 2
						} else {
							t = types.NewPointer(t)
							k--
						}
					}
					return t
				}
			}
		}
	}
	if strings.HasPrefix(name, "map[") {
		// map[K]V with package-qualified K, V
		d := 0
		for i := 3; i < len(name); i++ {
			switch name[i] {
			case '[':
				d++
			case ']':
				d--
				if d == 0 {
					return types.NewMap(sc.lookupType(name[4:i]), sc.lookupType(name[i+1:]))
				}
			}
		}
	}
	if sc.pkg != nil {
		tv, err := types.Eval(token.NewFileSet(), sc.pkg, token.NoPos, name)
		if err == nil && tv.IsType() {
			return tv.Type
		}
		if i := strings.LastIndex(name, "."); i >= 0 {
			// qualified: find import by name
			prefix := ""
			q := name
			for strings.HasPrefix(q, "*") || strings.HasPrefix(q, "[]") {
				if q[0] == '*' {
					prefix += "*"
					q = q[1:]
				} else {
					prefix += "[]"
					q = q[2:]
				}
			}
			j := strings.Index(q, ".")
			if p := sc.findImport(q[:j]); p != nil {
				if o := p.Scope().Lookup(q[j+1:]); o != nil {
					if tn, ok := o.(*types.TypeName); ok {
						var t types.Type = tn.Type()
						for k := len(prefix); k > 0; {
							if strings.HasSuffix(prefix[:k], "[]") {
								t = types.NewSlice(t)
								k -= 2
							} else {
								t = types.NewPointer(t)
								k--
							}
						}
						return t
					}
				}
			}
		}
	}
	tv, err := types.Eval(token.NewFileSet(), nil, token.NoPos, name)
	if err == nil && tv.IsType() {
		return tv.Type
	}
	panic(engErr("spec: unknown type " + name))
}

func (sc *SpecCtx) findImport(name string) *types.Package {
	if sc.pkg == nil {
		return nil
	}
	for _, p := range sc.pkg.Imports() {
		if p.Name() == name {
			return p
		}
	}
	// transitive search by name (e.g. math)
	seen := map[*types.Package]bool{}
	var rec func(p *types.Package) *types.Package
	rec = func(p *types.Package) *types.Package {
		if seen[p] {
			return nil
		}
		seen[p] = true
		for _, q := range p.Imports() {
			if q.Name() == name {
				return q
			}
			if r := rec(q); r != nil {
				return r
			}
		}
		return nil
	}
	return rec(sc.pkg)
}

func (sc *SpecCtx) constVal(c *types.Const) Val {
	vc := sc.vc
	v := c.Val()
	switch v.Kind() {
	case constant.Int:
		bi, _ := new(big.Int).SetString(v.ExactString(), 10)
		t := c.Type()
		if isUntypedInt(t) {
			return Val{Ty: specInt, T: bigLit(bi)}
		}
		return Val{Ty: t, T: vc.intConst(bi, t)}
	case constant.Bool:
		return Val{Ty: specBool, T: boolLit(constant.BoolVal(v))}
	case constant.String:
		return Val{Ty: types.Typ[types.String], T: vc.strLit(constant.StringVal(v))}
	}
	panic(engErr("spec: unsupported constant " + c.Name()))
}

func (sc *SpecCtx) eval(x *SX) Val {
	vc := sc.vc
	switch x.K {
	case "int":
		bi, ok := new(big.Int).SetString(x.Op, 0)
		if !ok {
			sc.fail(x, "bad integer literal")
		}
		return Val{Ty: specInt, T: bigLit(bi)}
	case "str":
		return Val{Ty: types.Typ[types.String], T: vc.strLit(x.Op)}
	case "id":
		return sc.ident(x)
	case "un":
		v := sc.eval(x.Args[0])
		switch x.Op {
		case "!":
			return Val{Ty: specBool, T: not(v.T)}
		case "-":
			if isBV(v.T.Sort) {
				return Val{Ty: v.Ty, T: app(v.T.Sort, "bvneg", v.T)}
			}
			return Val{Ty: specInt, T: sub(intLit(0), v.T)}
		case "^":
			if isBV(v.T.Sort) {
				return Val{Ty: v.Ty, T: app(v.T.Sort, "bvnot", v.T)}
			}
			sc.fail(x, "complement needs bit-vector operand")
		}
	case "bin":
		return sc.binary(x)
	case "ite":
		c := sc.evalBool(x.Args[0])
		a, b := sc.eval(x.Args[1]), sc.eval(x.Args[2])
		a, b = sc.unify(a, b)
		return Val{Ty: a.Ty, T: ite(c, a.T, b.T)}
	case "call":
		return sc.call(x)
	case "idx":
		base := sc.eval(x.Args[0])
		idx := sc.eval(x.Args[1])
		return sc.index(x, base, idx)
	case "slice":
		base := sc.eval(x.Args[0])
		if _, ok := vc.under(base.Ty).(*types.Slice); !ok {
			sc.fail(x, "slice expression on non-slice")
		}
		lo := intLit(0)
		hi := sLen(base.T)
		if x.Args[1] != nil {
			lo = vc.toInt(sc.eval(x.Args[1]))
		}
		if x.Args[2] != nil {
			hi = vc.toInt(sc.eval(x.Args[2]))
		}
		return Val{Ty: base.Ty, T: mkSlice(sArr(base.T), add(sOff(base.T), lo), sub(hi, lo), sub(sCap(base.T), lo))}
	case "sel":
		return sc.selector(x)
	case "forall", "exists":
		vars := map[string]Val{}
		var decls []string
		var guards []Term
		for _, q := range x.Vars {
			ty := sc.lookupType(q.Type)
			srt := vc.sortOf(ty)
			name := "q_" + q.Name
			vc.ctr["qv"]++
			name = fmt.Sprintf("%s!%d", name, vc.ctr["qv"])
			decls = append(decls, fmt.Sprintf("(%s %s)", name, srt))
			t := Term{name, srt}
			vars[q.Name] = Val{Ty: ty, T: t}
			if !isUntypedInt(ty) {
				guards = append(guards, vc.typeInv(t, ty, Term{}))
			}
		}
		body := sc.with(vars).evalBool(x.Args[0])
		g := and(guards...)
		if x.K == "forall" {
			body = implies(g, body)
		} else {
			body = and(g, body)
		}
		return Val{Ty: specBool, T: Term{fmt.Sprintf("(%s (%s) %s)", x.K, strings.Join(decls, " "), body.S), SBool}}
	}
	sc.fail(x, "unsupported expression kind "+x.K)
	return Val{}
}

func (sc *SpecCtx) ident(x *SX) Val {
	vc := sc.vc
	name := x.Op
	if v, ok := sc.vars[name]; ok {
		return v
	}
	switch name {
	case "true":
		return Val{Ty: specBool, T: tTrue}
	case "false":
		return Val{Ty: specBool, T: tFalse}
	case "nil":
		return Val{Ty: types.Typ[types.UntypedNil], T: intLit(0)}
	}
	if g := vc.eng.contracts.Ghosts[name]; g != nil {
		l := sc.ghostLoc(g)
		return Val{Ty: l.Ty, T: sc.load(l)}
	}
	if sc.pkg != nil {
		if o := sc.pkg.Scope().Lookup(name); o != nil {
			switch o := o.(type) {
			case *types.Const:
				return sc.constVal(o)
			case *types.Var:
				// package-level variable: read through its global cell
				comp, srt := vc.cellComp(o.Type())
				gname := "G_" + smtQuote(o.Pkg().Name()+"."+o.Name())
				ref := Term{gname, SInt}
				if !vc.uf[gname] {
					vc.uf[gname] = true
					vc.emit(fmt.Sprintf("(declare-const %s Int)", gname))
					vc.assert(and(lt(intLit(0), ref), lt(ref, vc.alloc0)))
				}
				l := &Loc{Root: "C", Comp: comp, Sort: srt, Ref: ref, Ty: o.Type()}
				return Val{Ty: o.Type(), T: sc.load(l)}
			}
		}
	}
	sc.fail(x, "unknown identifier "+name)
	return Val{}
}

// ghostLoc: a ghost variable is a cell of its own heap component at reference 1.
func (sc *SpecCtx) ghostLoc(g *Ghost) *Loc {
	n := *sc
	n.pkg = sc.vc.eng.pkgTypes(g.Pkg, sc.pkg)
	ty := n.lookupType(g.Type)
	return &Loc{Root: "G", Comp: "GH_" + smtQuote(g.Name), Sort: arraySort(SInt, sc.vc.sortOf(ty)), Ref: intLit(1), Ty: ty}
}

func (sc *SpecCtx) load(l *Loc) Term {
	if sc.hp != nil {
		return sc.hp.load(sc, l)
	}
	vc := sc.vc
	t := vc.load(sc.st, l)
	// closed entry heap (see unop load): references stored in objects that existed at
	// entry point to objects that existed at entry
	if h, ok := sc.st.heap[l.Comp]; (!ok || h.S == l.Comp+"!0") && vc.hasRefs(l.Ty) && !hasFreeBound(t.S) {
		key := "closed:" + t.S
		if !vc.uf[key] {
			vc.uf[key] = true
			vc.assert(implies(lt(l.Ref, vc.alloc0), vc.typeInv(t, l.Ty, vc.alloc0)))
		}
	}
	return t
}

// unify coerces an untyped literal operand to the sort of the other operand.
func (sc *SpecCtx) unify(a, b Val) (Val, Val) {
	if a.T.Sort == b.T.Sort {
		return a, b
	}
	if isBV(a.T.Sort) && b.T.Sort == SInt {
		if c, ok := constOf(b.T); ok {
			return a, Val{Ty: a.Ty, T: bvLit(c, bvWidth(a.T.Sort))}
		}
	}
	if isBV(b.T.Sort) && a.T.Sort == SInt {
		if c, ok := constOf(a.T); ok {
			return Val{Ty: b.Ty, T: bvLit(c, bvWidth(b.T.Sort))}, b
		}
	}
	if a.T.Sort == SSlice && b.Ty == types.Typ[types.UntypedNil] {
		return a, Val{Ty: a.Ty, T: nilSlice}
	}
	if b.T.Sort == SSlice && a.Ty == types.Typ[types.UntypedNil] {
		return Val{Ty: b.Ty, T: nilSlice}, b
	}
	if a.T.Sort == SInt && b.T.Sort == SReal {
		return Val{Ty: b.Ty, T: app(SReal, "to_real", a.T)}, b
	}
	panic(engErr(fmt.Sprintf("spec: sort mismatch %s vs %s (%s, %s)", a.T.Sort, b.T.Sort, a.T.S, b.T.S)))
}

func (sc *SpecCtx) signedOf(v Val) bool {
	if ii, ok := sc.vc.intInfo(v.Ty); ok {
		return ii.signed
	}
	return true
}

func (sc *SpecCtx) binary(x *SX) Val {
	vc := sc.vc
	op := x.Op
	switch op {
	case "&&":
		a := sc.evalBool(x.Args[0])
		if a.IsFalse() {
			return Val{Ty: specBool, T: tFalse}
		}
		return Val{Ty: specBool, T: and(a, sc.evalBool(x.Args[1]))}
	case "||":
		a := sc.evalBool(x.Args[0])
		if a.IsTrue() {
			return Val{Ty: specBool, T: tTrue}
		}
		return Val{Ty: specBool, T: or(a, sc.evalBool(x.Args[1]))}
	case "==>":
		a := sc.evalBool(x.Args[0])
		if a.IsFalse() {
			return Val{Ty: specBool, T: tTrue}
		}
		return Val{Ty: specBool, T: implies(a, sc.evalBool(x.Args[1]))}
	case "<==>":
		return Val{Ty: specBool, T: eq(sc.evalBool(x.Args[0]), sc.evalBool(x.Args[1]))}
	}
	a, b := sc.eval(x.Args[0]), sc.eval(x.Args[1])
	switch op {
	case "==", "!=":
		var t Term
		_, aSlice := vc.under(orNil(a.Ty)).(*types.Slice)
		_, bSlice := vc.under(orNil(b.Ty)).(*types.Slice)
		switch {
		case a.Loc != nil && b.Ty == types.Typ[types.UntypedNil], b.Loc != nil && a.Ty == types.Typ[types.UntypedNil]:
			// the address of a field or element is never nil
			t = tFalse
		case aSlice && b.Ty == types.Typ[types.UntypedNil]:
			t = eq(sArr(a.T), intLit(0))
		case bSlice && a.Ty == types.Typ[types.UntypedNil]:
			t = eq(sArr(b.T), intLit(0))
		default:
			a, b = sc.unify(a, b)
			t = eq(a.T, b.T)
		}
		if op == "!=" {
			t = not(t)
		}
		return Val{Ty: specBool, T: t}
	}
	a, b = sc.unify(a, b)
	if isBV(a.T.Sort) {
		s := sc.signedOf(a)
		srt := a.T.Sort
		cmp := func(sop, uop string) Val {
			if s {
				return Val{Ty: specBool, T: app(SBool, sop, a.T, b.T)}
			}
			return Val{Ty: specBool, T: app(SBool, uop, a.T, b.T)}
		}
		ar := func(o string) Val { return Val{Ty: a.Ty, T: app(srt, o, a.T, b.T)} }
		switch op {
		case "<":
			return cmp("bvslt", "bvult")
		case "<=":
			return cmp("bvsle", "bvule")
		case ">":
			return cmp("bvsgt", "bvugt")
		case ">=":
			return cmp("bvsge", "bvuge")
		case "+":
			return ar("bvadd")
		case "-":
			return ar("bvsub")
		case "*":
			return ar("bvmul")
		case "&":
			return ar("bvand")
		case "|":
			return ar("bvor")
		case "^":
			return ar("bvxor")
		case "&^":
			return Val{Ty: a.Ty, T: app(srt, "bvand", a.T, app(srt, "bvnot", b.T))}
		case "<<":
			return ar("bvshl")
		case ">>":
			if s {
				return ar("bvashr")
			}
			return ar("bvlshr")
		case "/":
			if s {
				return ar("bvsdiv")
			}
			return ar("bvudiv")
		case "%":
			if s {
				return ar("bvsrem")
			}
			return ar("bvurem")
		}
		sc.fail(x, "unsupported bit-vector operator "+op)
	}
	if a.T.Sort == SReal || a.T.Sort == "String" {
		lt_, le_ := "<", "<="
		if a.T.Sort == "String" {
			lt_, le_ = "str.<", "str.<="
			if op == "++" || op == "+" {
				return Val{Ty: a.Ty, T: app("String", "str.++", a.T, b.T)}
			}
		}
		switch op {
		case "<":
			return Val{Ty: specBool, T: app(SBool, lt_, a.T, b.T)}
		case "<=":
			return Val{Ty: specBool, T: app(SBool, le_, a.T, b.T)}
		case ">":
			return Val{Ty: specBool, T: app(SBool, lt_, b.T, a.T)}
		case ">=":
			return Val{Ty: specBool, T: app(SBool, le_, b.T, a.T)}
		}
		sc.fail(x, "unsupported string operator "+op)
	}
	if a.T.Sort != SInt {
		sc.fail(x, "operator "+op+" on sort "+a.T.Sort)
	}
	switch op {
	case "<":
		return Val{Ty: specBool, T: lt(a.T, b.T)}
	case "<=":
		return Val{Ty: specBool, T: le(a.T, b.T)}
	case ">":
		return Val{Ty: specBool, T: gt(a.T, b.T)}
	case ">=":
		return Val{Ty: specBool, T: ge(a.T, b.T)}
	case "+":
		return Val{Ty: specInt, T: add(a.T, b.T)}
	case "-":
		return Val{Ty: specInt, T: sub(a.T, b.T)}
	case "*":
		return Val{Ty: specInt, T: mul(a.T, b.T)}
	case "/":
		return Val{Ty: specInt, T: tdiv(a.T, b.T)}
	case "%":
		return Val{Ty: specInt, T: tmod(a.T, b.T)}
	case "<<":
		if c, ok := constOf(b.T); ok {
			return Val{Ty: specInt, T: mul(a.T, bigLit(pow2(int(c.Int64()))))}
		}
	case ">>":
		if c, ok := constOf(b.T); ok {
			return Val{Ty: specInt, T: app(SInt, "div", a.T, bigLit(pow2(int(c.Int64()))))}
		}
	}
	sc.fail(x, "unsupported operator "+op)
	return Val{}
}

func orNil(t types.Type) types.Type {
	if t == nil {
		return types.Typ[types.Invalid]
	}
	return t
}

func (sc *SpecCtx) index(x *SX, base, idx Val) Val {
	vc := sc.vc
	i := vc.toInt(idx)
	if sc.hp == nil && !hasFreeBound(i.S) {
		// ground compound index: name it so that quantified facts instantiate at it
		i = vc.nameInt("sx", i)
	}
	switch u := vc.under(base.Ty).(type) {
	case *types.Slice:
		comp, srt := vc.elemComp(u.Elem())
		l := &Loc{Root: "E", Comp: comp, Sort: srt, Ref: sArr(base.T), Idx: add(sOff(base.T), i), Ty: u.Elem()}
		return Val{Ty: vc.resolve(u.Elem()), T: sc.load(l)}
	case *types.Array:
		return Val{Ty: vc.resolve(u.Elem()), T: sel(base.T, i)}
	case *types.Pointer:
		if at, ok := vc.under(u.Elem()).(*types.Array); ok {
			l := *vc.locOfPtr(base)
			l.Path = append(append([]Step{}, l.Path...), Step{Index: &i, ArrTy: u.Elem()})
			l.Ty = at.Elem()
			return Val{Ty: vc.resolve(at.Elem()), T: sc.load(&l)}
		}
	case *types.Map:
		return sc.mapIndex(base, idx, u)
	}
	sc.fail(x, "cannot index "+base.Ty.String())
	return Val{}
}

func (sc *SpecCtx) selector(x *SX) Val {
	// package-qualified constant?
	if x.Args[0].K == "id" {
		if _, isVar := sc.vars[x.Args[0].Op]; !isVar {
			if p := sc.findImport(x.Args[0].Op); p != nil && (sc.pkg == nil || sc.pkg.Scope().Lookup(x.Args[0].Op) == nil) {
				o := p.Scope().Lookup(x.Op)
				if c, ok := o.(*types.Const); ok {
					return sc.constVal(c)
				}
				sc.fail(x, "unsupported package member")
			}
		}
	}
	base := sc.eval(x.Args[0])
	return sc.fieldOf(x, base, x.Op)
}

func (sc *SpecCtx) fieldOf(x *SX, base Val, name string) Val {
	vc := sc.vc
	t := vc.resolve(base.Ty)
	obj, path, _ := types.LookupFieldOrMethod(t, true, nil, name)
	if obj == nil && sc.pkg != nil {
		obj, path, _ = types.LookupFieldOrMethod(t, true, sc.pkg, name)
	}
	if obj == nil {
		// unexported field of another package
		obj, path = lookupFieldAnyPkg(t, name)
	}
	if _, ok := obj.(*types.Var); !ok {
		sc.fail(x, "no field "+name+" in "+t.String())
	}
	cur := base
	for k, fi := range path {
		ct := vc.resolve(cur.Ty)
		if pt, ok := ct.Underlying().(*types.Pointer); ok {
			sty := pt.Elem()
			l := vc.fieldLoc(cur, sty, fi)
			fty := vc.under(sty).(*types.Struct).Field(fi).Type()
			if _, isStruct := vc.under(fty).(*types.Struct); isStruct {
				// keep as location so that nested selection stays a path
				cur = Val{Ty: types.NewPointer(fty), Loc: l}
				// mark as auto-deref: remember to load if final
				if k == len(path)-1 {
					return Val{Ty: vc.resolve(fty), T: sc.load(l), Loc: nil}
				}
				continue
			}
			cur = Val{Ty: vc.resolve(fty), T: sc.load(l)}
		} else {
			st, ok := ct.Underlying().(*types.Struct)
			if !ok {
				sc.fail(x, "field selection on "+ct.String())
			}
			cur = Val{Ty: vc.resolve(st.Field(fi).Type()), T: vc.getField(cur.T, ct, fi)}
		}
	}
	return cur
}

// structField resolves an `all T.f` assigns location to the struct type and field index.
func (sc *SpecCtx) structField(x *SX) (types.Type, int) {
	ty := sc.lookupType(x.Args[0].Op)
	if _, ok := sc.vc.under(ty).(*types.Struct); !ok {
		panic(engErr("assigns all: " + x.Args[0].Op + " is not a struct type"))
	}
	_, path := lookupFieldAnyPkg(ty, x.Op)
	if len(path) != 1 {
		panic(engErr("assigns all: no direct field " + x.Op + " in " + x.Args[0].Op))
	}
	return ty, path[0]
}

func lookupFieldAnyPkg(t types.Type, name string) (types.Object, []int) {
	if p, ok := t.Underlying().(*types.Pointer); ok {
		t = p.Elem()
	}
	st, ok := t.Underlying().(*types.Struct)
	if !ok {
		return nil, nil
	}
	for i := 0; i < st.NumFields(); i++ {
		if st.Field(i).Name() == name {
			return st.Field(i), []int{i}
		}
	}
	for i := 0; i < st.NumFields(); i++ {
		if st.Field(i).Embedded() {
			if o, p := lookupFieldAnyPkg(st.Field(i).Type(), name); o != nil {
				return o, append([]int{i}, p...)
			}
		}
	}
	return nil, nil
}

func (sc *SpecCtx) call(x *SX) Val {
	vc := sc.vc
	fn := x.Args[0]
	args := x.Args[1:]
	name := ""
	if fn.K == "id" {
		name = fn.Op
	} else if fn.K == "sel" && fn.Args[0].K == "id" {
		name = fn.Args[0].Op + "." + fn.Op
	}
	need := func(n int) {
		if len(args) != n {
			sc.fail(x, fmt.Sprintf("%s expects %d arguments", name, n))
		}
	}
	if name == "f64" || name == "f32" || strings.HasPrefix(name, "fp.") {
		return sc.fpCall(x, name, args)
	}
	switch name {
	case "visited":
		// visited(k): the function's map iteration has delivered key k
		need(1)
		t, ok := sc.visitedTerm(sc.eval(args[0]))
		if !ok {
			sc.fail(x, "visited(k) needs exactly one map iteration in the function")
		}
		return Val{Ty: specBool, T: t}
	case "uvarintValue", "uvarintRead":
		// the two results of encoding/binary.Uvarint(b) as the code sees them (the
		// uninterpreted functions of the buffer contents the extern model uses)
		need(1)
		av := sc.eval(args[0])
		heapOf := func(comp, srt string) Term {
			if sc.hp != nil {
				return sc.hp.term(comp, srt)
			}
			return vc.heapGet(sc.st, comp, srt)
		}
		if name == "uvarintValue" {
			return Val{Ty: types.Typ[types.Uint64], T: vc.pureApp("encoding/binary.Uvarint.value", []Val{av}, types.Typ[types.Uint64], heapOf)}
		}
		return Val{Ty: specInt, T: vc.pureApp("encoding/binary.Uvarint.n", []Val{av}, types.Typ[types.Int], heapOf)}
	case "result":
		// result(i, f(args)): the i-th result of a pure package-level function with several
		// results (the uninterpreted function f#i that replaces the call in code)
		need(2)
		idx, ok := litOf(sc.eval(args[0]).T)
		inner := args[1]
		if !ok || inner.K != "call" || inner.Args[0].K != "id" || sc.pkg == nil {
			sc.fail(x, "result(i, f(args)) expected")
		}
		fname := inner.Args[0].Op
		key := sc.pkg.Path() + "." + fname
		c := vc.eng.contracts.Funcs[key]
		f, isF := sc.pkg.Scope().Lookup(fname).(*types.Func)
		if c == nil || !c.Pure || !isF {
			sc.fail(x, "no pure contract "+key)
		}
		sig := f.Type().(*types.Signature)
		i := int(idx.Int64())
		if i < 0 || i >= sig.Results().Len() {
			sc.fail(x, "result index out of range")
		}
		var avs []Val
		for k, a := range inner.Args[1:] {
			av := sc.eval(a)
			if k < sig.Params().Len() {
				av = sc.coerce(av, sig.Params().At(k).Type())
			}
			avs = append(avs, av)
		}
		rt := sig.Results().At(i).Type()
		heapOf := func(comp, srt string) Term {
			if sc.hp != nil {
				return sc.hp.term(comp, srt)
			}
			return vc.heapGet(sc.st, comp, srt)
		}
		return Val{Ty: vc.resolve(rt), T: vc.pureApp(fmt.Sprintf("%s$%d", key, i), avs, rt, heapOf)}
	case "old":
		need(1)
		n := *sc
		n.st = sc.old
		return n.eval(args[0])
	case "len":
		need(1)
		v := sc.eval(args[0])
		switch u := vc.under(v.Ty).(type) {
		case *types.Slice:
			return Val{Ty: specInt, T: sLen(v.T)}
		case *types.Array:
			return Val{Ty: specInt, T: intLit(u.Len())}
		case *types.Basic:
			if vc.strSMT {
				return Val{Ty: specInt, T: app(SInt, "str.len", v.T)}
			}
			vc.declUF("str.length", fmt.Sprintf("(%s) Int", vc.sortOf(v.Ty)))
			return Val{Ty: specInt, T: app(SInt, "str.length", v.T)}
		case *types.Map:
			return sc.mapLen(v, u)
		}
		sc.fail(x, "len of "+v.Ty.String())
	case "cap":
		need(1)
		v := sc.eval(args[0])
		return Val{Ty: specInt, T: sCap(v.T)}
	case "min", "max":
		need(2)
		a, b := sc.unify(sc.eval(args[0]), sc.eval(args[1]))
		c := le(a.T, b.T)
		if name == "max" {
			c = ge(a.T, b.T)
		}
		return Val{Ty: a.Ty, T: ite(c, a.T, b.T)}
	case "abs":
		need(1)
		a := sc.eval(args[0])
		return Val{Ty: specInt, T: ite(ge(a.T, intLit(0)), a.T, sub(intLit(0), a.T))}
	case "Z":
		need(1)
		a := sc.eval(args[0])
		return Val{Ty: specInt, T: vc.toInt(a)}
	case "lo", "hi":
		need(1)
		if args[0].K != "id" {
			sc.fail(x, "type name expected")
		}
		ii, ok := vc.intInfo(sc.lookupType(args[0].Op))
		if !ok {
			sc.fail(x, "integer type expected")
		}
		if name == "lo" {
			return Val{Ty: specInt, T: bigLit(ii.lo())}
		}
		return Val{Ty: specInt, T: bigLit(ii.hi())}
	case "tdiv", "tmod", "ediv", "emod":
		need(2)
		a, b := sc.eval(args[0]), sc.eval(args[1])
		switch name {
		case "tdiv":
			return Val{Ty: specInt, T: tdiv(a.T, b.T)}
		case "tmod":
			return Val{Ty: specInt, T: tmod(a.T, b.T)}
		case "ediv":
			return Val{Ty: specInt, T: app(SInt, "div", a.T, b.T)}
		}
		return Val{Ty: specInt, T: app(SInt, "mod", a.T, b.T)}
	case "fresh":
		// fresh(s): the backing array (or reference) was allocated during the call
		need(1)
		v := sc.eval(args[0])
		if v.T.Sort == SSlice {
			return Val{Ty: specBool, T: or(eq(sArr(v.T), intLit(0)), ge(sArr(v.T), sc.allocBase()))}
		}
		return Val{Ty: specBool, T: ge(v.T, sc.allocBase())}
	case "allocated":
		// allocated(x): x's reference existed at function entry
		need(1)
		v := sc.eval(args[0])
		if v.T.Sort == SSlice {
			return Val{Ty: specBool, T: lt(sArr(v.T), sc.allocBase())}
		}
		return Val{Ty: specBool, T: lt(v.T, sc.allocBase())}
	case "bytestr", "itoa", "hexOf":
		// bytestr(b): the text a byte slice built by fmt.Appendf spells; itoa(n): decimal
		// rendering; hexOf(n): the (uninterpreted) %x rendering. Need `strings smt`.
		need(1)
		if !vc.strSMT {
			sc.fail(x, name+" needs 'strings smt'")
		}
		v := sc.eval(args[0])
		strTy := types.Typ[types.String]
		switch name {
		case "bytestr":
			vc.declUF("bytestr", "("+SSlice+") String")
			return Val{Ty: strTy, T: app("String", "bytestr", v.T)}
		case "hexOf":
			vc.declUF("hexOf", "(Int) String")
			return Val{Ty: strTy, T: app("String", "hexOf", vc.toInt(v))}
		}
		return Val{Ty: strTy, T: itoaTerm(vc.toInt(v))}
	case "uvarintLen", "zigzag":
		// uvarintLen(x): number of bytes of the base-128 varint of x (0 <= x < 2^64);
		// zigzag(i): the unsigned image 2i (i >= 0) / -2i-1 (i < 0) that signed varints encode
		need(1)
		v := vc.toInt(sc.eval(args[0]))
		if name == "zigzag" {
			return Val{Ty: specInt, T: ite(ge(v, intLit(0)), mul(intLit(2), v), sub(mul(intLit(-2), v), intLit(1)))}
		}
		return Val{Ty: specInt, T: uvarintLenTerm(v)}
	case "deref":
		// deref(p): the value stored in the cell p points to (p a pointer to a non-struct)
		need(1)
		v := sc.eval(args[0])
		pt, ok := vc.under(v.Ty).(*types.Pointer)
		if !ok {
			sc.fail(x, "pointer expected")
		}
		return Val{Ty: vc.resolve(pt.Elem()), T: sc.load(vc.locOfPtr(v))}
	case "entry":
		// entry(p): the value parameter p had on entry (parameters are mutable locals;
		// inside loop invariants a plain name denotes the current value)
		need(1)
		if args[0].K != "id" {
			sc.fail(x, "parameter name expected")
		}
		v, ok := vc.entryVars[args[0].Op]
		if !ok {
			sc.fail(x, "no parameter named "+args[0].Op)
		}
		return v
	case "bigval":
		// bigval(p): the mathematical integer held by the *big.Int p
		need(1)
		v := sc.eval(args[0])
		return Val{Ty: specInt, T: vc.bigVal(sc.st, v.T)}
	case "live":
		// live(x): x's reference is below the current allocation counter (so anything
		// allocated from here on is a different object)
		need(1)
		v := sc.eval(args[0])
		if v.T.Sort == SSlice {
			return Val{Ty: specBool, T: lt(sArr(v.T), sc.st.alloc)}
		}
		return Val{Ty: specBool, T: lt(v.T, sc.st.alloc)}
	case "sameArray":
		need(2)
		a, b := sc.eval(args[0]), sc.eval(args[1])
		return Val{Ty: specBool, T: eq(sArr(a.T), sArr(b.T))}
	case "arr", "off":
		need(1)
		a := sc.eval(args[0])
		if name == "arr" {
			return Val{Ty: specInt, T: sArr(a.T)}
		}
		return Val{Ty: specInt, T: sOff(a.T)}
	case "unchangedElems":
		// unchangedElems(s): every cell of s's backing array equals its old value
		need(1)
		return sc.unchangedElems(x, args[0])
	case "unchangedOld":
		// unchangedOld(T): all element arrays of element type T allocated at entry are unchanged
		need(1)
		return sc.unchangedOld(x, args[0])
	case "bytesEqual", "bytes.Equal":
		need(2)
		return sc.bytesEqual(sc.eval(args[0]), sc.eval(args[1]))
	case "strings.Contains", "strings.HasPrefix", "strings.HasSuffix", "strings.Index", "substr":
		// SMT string theory (needs `strings smt`); substr(s, lo, hi) is s[lo:hi]
		if !vc.strSMT {
			sc.fail(x, name+" needs 'strings smt'")
		}
		a := sc.eval(args[0])
		b := sc.eval(args[1])
		switch name {
		case "strings.Contains":
			need(2)
			return Val{Ty: specBool, T: app(SBool, "str.contains", a.T, b.T)}
		case "strings.HasPrefix":
			need(2)
			return Val{Ty: specBool, T: app(SBool, "str.prefixof", b.T, a.T)}
		case "strings.HasSuffix":
			need(2)
			return Val{Ty: specBool, T: app(SBool, "str.suffixof", b.T, a.T)}
		case "strings.Index":
			need(2)
			return Val{Ty: specInt, T: app(SInt, "str.indexof", a.T, b.T, intLit(0))}
		}
		need(3)
		lo, hi := vc.toInt(b), vc.toInt(sc.eval(args[2]))
		return Val{Ty: a.Ty, T: app("String", "str.substr", a.T, lo, sub(hi, lo))}
	case "mapHas":
		// mapHas(m, k): key k is present in map m
		need(2)
		m := sc.eval(args[0])
		mt, ok := vc.under(m.Ty).(*types.Map)
		if !ok {
			sc.fail(x, "map expected")
		}
		k := sc.coerce(sc.eval(args[1]), mt.Key())
		pcomp, _, _, _, _ := vc.mapComps(mt)
		ph := sc.heapTerm(pcomp, vc.compSort[pcomp])
		return Val{Ty: specBool, T: and(not(eq(m.T, intLit(0))), sel(sel(ph, m.T), k.T))}
	case "mapUnchanged":
		// mapUnchanged(m): map m holds exactly the entries it held in the old state
		need(1)
		m := sc.eval(args[0])
		mt, ok := vc.under(m.Ty).(*types.Map)
		if !ok {
			sc.fail(x, "map expected")
		}
		pcomp, vcomp, vsort, lcomp, lsort := vc.mapComps(mt)
		psort := vc.compSort[pcomp]
		var cs []Term
		for _, c := range [][2]string{{pcomp, psort}, {vcomp, vsort}, {lcomp, lsort}} {
			cs = append(cs, eq(sel(vc.heapGet(sc.st, c[0], c[1]), m.T), sel(vc.heapGet(sc.old, c[0], c[1]), m.T)))
		}
		return Val{Ty: specBool, T: and(cs...)}
	case "pow2":
		need(1)
		a := sc.eval(args[0])
		return Val{Ty: specInt, T: vc.pow2Term(vc.toInt(a))}
	case "implements":
		// implements(x, "interface{M() T}"): x is non-nil and its dynamic type has the
		// interface's methods (the same uninterpreted function an x.(I) assertion uses)
		need(2)
		v := sc.eval(args[0])
		if args[1].K != "str" {
			sc.fail(x, "interface type expected as a string literal")
		}
		tv, err := types.Eval(vc.eng.prog.Fset, sc.pkg, 0, args[1].Op)
		if err != nil {
			sc.fail(x, "bad interface type: "+err.Error())
		}
		return Val{Ty: specBool, T: and(not(eq(v.T, intLit(0))), vc.implementsTerm(v.T, tv.Type))}
	case "dyncall":
		// dyncall(x, "I.M", "interface{M() T}"): the result of the pure method M that x has
		// through the (possibly function-local) interface type I of this package
		need(3)
		v := sc.eval(args[0])
		if args[1].K != "str" || args[2].K != "str" {
			sc.fail(x, "dyncall(x, \"I.M\", \"interface{...}\") expected")
		}
		tv, err := types.Eval(vc.eng.prog.Fset, sc.pkg, 0, args[2].Op)
		if err != nil {
			sc.fail(x, "bad interface type: "+err.Error())
		}
		it, ok := tv.Type.Underlying().(*types.Interface)
		mname := args[1].Op[strings.LastIndex(args[1].Op, ".")+1:]
		var rt types.Type
		if ok {
			for i := 0; i < it.NumMethods(); i++ {
				if it.Method(i).Name() == mname {
					rt = it.Method(i).Type().(*types.Signature).Results().At(0).Type()
				}
			}
		}
		if rt == nil {
			sc.fail(x, "no method "+mname+" in "+args[2].Op)
		}
		key := sc.pkg.Path() + "." + args[1].Op
		if c := vc.eng.contracts.Funcs[key]; c == nil || !c.Pure {
			sc.fail(x, "no pure contract "+key)
		}
		heapOf := func(comp, srt string) Term {
			if sc.hp != nil {
				return sc.hp.term(comp, srt)
			}
			return vc.heapGet(sc.st, comp, srt)
		}
		return Val{Ty: vc.resolve(rt), T: vc.pureApp(key, []Val{v}, rt, heapOf)}
	case "hasType", "unboxed":
		// hasType(x, T): interface value x is non-nil with dynamic type T;
		// unboxed(x, T): the T value it holds
		need(2)
		v := sc.eval(args[0])
		tn := args[1].String()
		if args[1].K == "str" {
			tn = args[1].Op // type written as a string literal, e.g. "*mempoolTx"
		}
		ty := sc.lookupType(strings.ReplaceAll(strings.ReplaceAll(tn, "(", ""), ")", ""))
		_, unbox := vc.boxFns(ty)
		if name == "hasType" {
			return Val{Ty: specBool, T: and(not(eq(v.T, intLit(0))), eq(app(SInt, "typetag", v.T), vc.typeTag(ty)))}
		}
		return Val{Ty: ty, T: app(vc.sortOf(ty), unbox, v.T)}
	case "aminoFails":
		// aminoFails(T, bz): amino.Unmarshal(bz, &x) with x of type T reports an error (the
		// same uninterpreted function of the bytes the extern model uses; entry heap)
		need(2)
		if args[0].K != "id" && args[0].K != "sel" {
			sc.fail(x, "type name expected")
		}
		tnF := args[0].Op
		if args[0].K == "sel" {
			tnF = args[0].Args[0].Op + "." + args[0].Op
		}
		tyF := sc.lookupType(tnF)
		bzF := sc.eval(args[1])
		heapOfF := func(comp, srt string) Term {
			if sc.hp != nil {
				return sc.hp.term(comp, srt)
			}
			return vc.heapGet(sc.old, comp, srt)
		}
		return Val{Ty: specBool, T: not(eq(vc.pureApp("amino.err."+mangle(typeKey(vc.resolve(tyF))), []Val{bzF}, types.Typ[types.Int], heapOfF), intLit(0)))}
	case "aminoDecoded":
		// aminoDecoded(T, bz): the value amino.Unmarshal(bz, &x) stores in x of type T
		// (the same uninterpreted function the extern model of amino.Unmarshal uses)
		need(2)
		if args[0].K != "id" && args[0].K != "sel" {
			sc.fail(x, "type name expected")
		}
		tn := args[0].Op
		if args[0].K == "sel" {
			tn = args[0].Args[0].Op + "." + args[0].Op
		}
		ty := sc.lookupType(tn)
		bz := sc.eval(args[1])
		heapOf := func(comp, srt string) Term {
			if sc.hp != nil {
				return sc.hp.term(comp, srt)
			}
			return vc.heapGet(sc.old, comp, srt)
		}
		return Val{Ty: ty, T: vc.pureApp("amino.decode."+mangle(typeKey(vc.resolve(ty))), []Val{bz}, ty, heapOf)}
	}
	// conversions T(x)
	if fn.K == "id" || name != "" {
		if ty := sc.tryType(name); ty != nil && len(args) == 1 {
			v := sc.eval(args[0])
			return sc.specConvert(v, ty)
		}
	}
	if fn.K == "id" {
		if sf := sc.vc.eng.contracts.SpecFuncs[name]; sf != nil {
			var avs []Val
			for _, a := range args {
				avs = append(avs, sc.eval(a))
			}
			return sc.applySpecFunc(sf, avs)
		}
	}
	// lemma application: the instance (requires ==> ensures) is a theorem proved by the
	// lemma's own obligations; it is added as an assumption here and the call is `true`
	if fn.K == "id" {
		for _, l := range vc.eng.contracts.Lemmas {
			if l.Name != name {
				continue
			}
			if len(args) != len(l.Params) {
				sc.fail(x, "wrong number of lemma arguments")
			}
			lsc := *sc
			lsc.pkg = vc.eng.pkgTypes(l.Pkg, sc.pkg)
			lsc.vars = map[string]Val{}
			ground := sc.hp == nil
			for i, p := range l.Params {
				a := sc.eval(args[i])
				a = lsc.coerce(a, lsc.lookupType(p.Type))
				if hasFreeBound(a.T.S) {
					ground = false
				}
				lsc.vars[p.Name] = a
			}
			var req, ens []Term
			for _, r := range l.Requires {
				req = append(req, lsc.evalBool(r.X))
			}
			for _, en := range l.Ensures {
				ens = append(ens, lsc.evalBool(en.X))
			}
			inst := implies(and(req...), and(ens...))
			vc.eng.markLemmaUsed(l)
			if !ground {
				return Val{Ty: specBool, T: inst}
			}
			vc.assert(inst)
			vc.note("lemma " + l.Name + " used (proved by its own obligations in the same check)")
			return Val{Ty: specBool, T: tTrue}
		}
	}
	// pure Go function / method by contract
	if v, ok := sc.pureCall(x, fn, args); ok {
		return v
	}
	sc.fail(x, "unknown function "+fn.String())
	return Val{}
}

func (sc *SpecCtx) tryType(name string) (t types.Type) {
	if name == "" {
		return nil
	}
	defer func() {
		if r := recover(); r != nil {
			t = nil
		}
	}()
	if _, isVar := sc.vars[name]; isVar {
		return nil
	}
	if sc.vc.eng.contracts.SpecFuncs[name] != nil {
		return nil
	}
	return sc.lookupType(name)
}

func (sc *SpecCtx) specConvert(v Val, ty types.Type) Val {
	vc := sc.vc
	if ii, ok := vc.intInfo(ty); ok {
		if !vc.bvType(ty) && isBV(v.T.Sort) {
			return vc.convertVal(sc.st, v, ty, "sconv")
		}
		if vc.bvType(ty) {
			if isBV(v.T.Sort) {
				return vc.convertVal(sc.st, v, ty, "sconv")
			}
			if c, ok := constOf(v.T); ok {
				return Val{Ty: ty, T: bvLit(c, ii.w)}
			}
			return Val{Ty: ty, T: Term{fmt.Sprintf("((_ int2bv %d) %s)", ii.w, v.T.S), bvSort(ii.w)}}
		}
		// int mode: spec conversion wraps exactly like Go
		if fi, ok := vc.intInfo(v.Ty); ok && fi.lo().Cmp(ii.lo()) >= 0 && fi.hi().Cmp(ii.hi()) <= 0 {
			return Val{Ty: ty, T: v.T}
		}
		return Val{Ty: ty, T: wrapInt(v.T, ii.w, ii.signed)}
	}
	if isUntypedInt(ty) {
		return Val{Ty: specInt, T: vc.toInt(v)}
	}
	if tb, ok := vc.under(ty).(*types.Basic); ok && tb.Info()&types.IsString != 0 {
		if _, fromSlice := vc.under(v.Ty).(*types.Slice); fromSlice {
			// string(b): the same uninterpreted function of the bytes the code-side conversion uses
			return Val{Ty: ty, T: vc.pureApp("string.ofbytes", []Val{v}, types.Typ[types.String], func(comp, srt string) Term {
				if sc.hp != nil {
					return sc.hp.term(comp, srt)
				}
				return vc.heapGet(sc.st, comp, srt)
			})}
		}
	}
	v.Ty = ty
	return v
}

// bytesEqual: extensional equality of two byte slices.
func (sc *SpecCtx) bytesEqual(a, b Val) Val {
	vc := sc.vc
	et := vc.under(a.Ty).(*types.Slice).Elem()
	comp, srt := vc.elemComp(et)
	vc.ctr["qv"]++
	k := Term{fmt.Sprintf("q_k!%d", vc.ctr["qv"]), SInt}
	la := &Loc{Root: "E", Comp: comp, Sort: srt, Ref: sArr(a.T), Idx: add(sOff(a.T), k), Ty: et}
	lb := &Loc{Root: "E", Comp: comp, Sort: srt, Ref: sArr(b.T), Idx: add(sOff(b.T), k), Ty: et}
	body := implies(and(le(intLit(0), k), lt(k, sLen(a.T))), eq(sc.load(la), sc.load(lb)))
	q := Term{fmt.Sprintf("(forall ((%s Int)) %s)", k.S, body.S), SBool}
	return Val{Ty: specBool, T: and(eq(sLen(a.T), sLen(b.T)), q)}
}

func (sc *SpecCtx) unchangedElems(x *SX, arg *SX) Val {
	vc := sc.vc
	n := *sc
	n.st = sc.old
	s := n.eval(arg) // the slice as it was at entry
	et := vc.under(s.Ty).(*types.Slice).Elem()
	comp, srt := vc.elemComp(et)
	now := sel(vc.heapGet(sc.st, comp, srt), sArr(s.T))
	was := sel(vc.heapGet(sc.old, comp, srt), sArr(s.T))
	vc.ctr["qv"]++
	k := Term{fmt.Sprintf("q_k!%d", vc.ctr["qv"]), SInt}
	body := implies(and(le(sOff(s.T), k), lt(k, add(sOff(s.T), sCap(s.T)))), eq(sel(now, k), sel(was, k)))
	return Val{Ty: specBool, T: Term{fmt.Sprintf("(forall ((%s Int)) %s)", k.S, body.S), SBool}}
}

func (sc *SpecCtx) unchangedOld(x *SX, arg *SX) Val {
	vc := sc.vc
	if arg.K != "id" && arg.K != "sel" && arg.K != "str" {
		sc.fail(x, "element type name expected")
	}
	name := arg.Op // a string literal names composite types, e.g. "*Vote"
	if arg.K == "sel" {
		name = arg.Args[0].Op + "." + arg.Op
	}
	et := sc.lookupType(name)
	comp, srt := vc.elemComp(et)
	if isBigInt(vc.resolve(et)) {
		// unchangedOld(big.Int): every big integer that existed at entry keeps its value
		comp, srt = bigComp, bigSort
	}
	now := vc.heapGet(sc.st, comp, srt)
	was := vc.heapGet(sc.old, comp, srt)
	vc.ctr["qv"]++
	r := Term{fmt.Sprintf("q_r!%d", vc.ctr["qv"]), SInt}
	body := implies(and(le(intLit(0), r), lt(r, sc.allocBase())), eq(sel(now, r), sel(was, r)))
	return Val{Ty: specBool, T: Term{fmt.Sprintf("(forall ((%s Int)) %s)", r.S, body.S), SBool}}
}

// allocBase is the allocation counter at the entry of the function whose contract
// is being evaluated: references below it existed before the call.
func (sc *SpecCtx) allocBase() Term {
	if sc.base.S != "" {
		return sc.base
	}
	return sc.vc.alloc0
}
