package main

import (
	"strings"
)

// Pre-instantiation of quantified assumptions (sound: every added assertion is an
// instance of a universally quantified assumption already in the query). SMT
// solvers pick triggers on terms like (select (select E arr) (+ off i)); after
// arithmetic normalisation, re-slicing (shifted offsets) and heap-version changes
// those often do not match, so the engine instantiates index quantifiers itself at
// the ground index terms that occur in the query, including the terms shifted by
// sub-slice offsets.

// splitSexp returns the first balanced s-expression (or atom) of s and the rest.
func splitSexp(s string) (string, string) {
	s = strings.TrimLeft(s, " ")
	if s == "" {
		return "", ""
	}
	if s[0] != '(' {
		i := strings.IndexAny(s, " )")
		if i < 0 {
			return s, ""
		}
		return s[:i], s[i:]
	}
	d := 0
	for i := 0; i < len(s); i++ {
		switch s[i] {
		case '(':
			d++
		case ')':
			d--
			if d == 0 {
				return s[:i+1], s[i+1:]
			}
		case '"':
			for i++; i < len(s) && s[i] != '"'; i++ {
			}
		}
	}
	return s, ""
}

type qAssume struct {
	guards []string
	vars   []string
	body   string
	abs    bool // the bound variable is used directly as an array index (absolute cell index)
}

// parseQuantAssert recognises (assert (=> G1 (=> G2 ... (forall ((v Int) ...) body)))).
func parseQuantAssert(line string) (qAssume, bool) {
	var q qAssume
	if !strings.HasPrefix(line, "(assert ") || !strings.Contains(line, "(forall ((") {
		return q, false
	}
	x := strings.TrimSpace(line[len("(assert ") : len(line)-1])
	for strings.HasPrefix(x, "(=> ") {
		inner := x[len("(=> ") : len(x)-1]
		g, rest := splitSexp(inner)
		r, tail := splitSexp(rest)
		if strings.TrimSpace(tail) != "" {
			return q, false
		}
		q.guards = append(q.guards, g)
		x = r
	}
	if !strings.HasPrefix(x, "(forall (") {
		return q, false
	}
	inner := x[len("(forall ") : len(x)-1]
	binders, rest := splitSexp(inner)
	body, tail := splitSexp(rest)
	if strings.TrimSpace(tail) != "" {
		return q, false
	}
	b := binders[1 : len(binders)-1]
	for b = strings.TrimSpace(b); b != ""; b = strings.TrimSpace(b) {
		one, r := splitSexp(b)
		f := strings.Fields(one[1 : len(one)-1])
		if len(f) != 2 || f[1] != "Int" {
			return q, false
		}
		q.vars = append(q.vars, f[0])
		b = r
	}
	q.body = body
	if len(q.vars) == 1 && (strings.HasPrefix(body, "(= (select apparr!") || strings.HasPrefix(body, "(= (select copyarr!") || strings.HasPrefix(body, "(= (select delarr!")) {
		// definitions of a copied/appended array: the bound variable is an absolute cell index
		q.abs = true
	}
	return q, len(q.vars) >= 1 && len(q.vars) <= 2
}

func substTokens(s string, m map[string]string) string {
	var b strings.Builder
	i := 0
	for i < len(s) {
		c := s[i]
		if c == ' ' || c == '(' || c == ')' {
			b.WriteByte(c)
			i++
			continue
		}
		j := i
		for j < len(s) && s[j] != ' ' && s[j] != '(' && s[j] != ')' {
			j++
		}
		tok := s[i:j]
		if r, ok := m[tok]; ok {
			b.WriteString(r)
		} else {
			b.WriteString(tok)
		}
		i = j
	}
	return b.String()
}

type idxOcc struct {
	slice string // S in (+ (s.off S) X)
	term  string // X
}

// indexOccurrences scans s for (+ (s.off S) X) with S atomic and X any term
// without bound variables.
func indexOccurrences(s string) []idxOcc {
	var out []idxOcc
	const pre = "(+ (s.off "
	for i := 0; ; {
		j := strings.Index(s[i:], pre)
		if j < 0 {
			break
		}
		p := i + j + len(pre)
		name, rest := splitSexp(s[p:])
		i = p
		if name == "" || !strings.HasPrefix(rest, ")") {
			continue
		}
		x, _ := splitSexp(rest[1:])
		if x == "" || strings.Contains(name, "q_") || strings.Contains(name, "p!") {
			continue
		}
		if strings.Contains(x, "q_") || strings.Contains(x, "p!") || strings.HasPrefix(x, "(s.cap ") {
			continue
		}
		out = append(out, idxOcc{name, x})
	}
	return out
}

// sliceShifts finds sub-slice definitions t = mk-slice(arr B, off B + LO, ..): t -> (B, LO).
func sliceShifts(lines []string) map[string][2]string {
	m := map[string][2]string{}
	for _, l := range lines {
		if !strings.HasPrefix(l, "(define-fun ") || !strings.Contains(l, "() Slice (mk-slice ") {
			continue
		}
		f := strings.Fields(l)
		name := f[1]
		k := strings.Index(l, "(mk-slice ")
		rest := l[k+len("(mk-slice "):]
		_, rest = splitSexp(rest) // arr
		off, _ := splitSexp(rest)
		const p = "(+ (s.off "
		if strings.HasPrefix(off, p) {
			e := strings.IndexByte(off[len(p):], ')')
			if e > 0 {
				base := off[len(p) : len(p)+e]
				lo, tail := splitSexp(off[len(p)+e+1:])
				if strings.TrimSpace(tail) == ")" && !strings.ContainsAny(base, " (") {
					m[name] = [2]string{base, lo}
				}
			}
		}
	}
	return m
}

// preInstantiate returns extra (assert ...) lines: instances of the quantified
// assumptions in lines at the ground index terms occurring in lines and goal.
func preInstantiate(lines []string, goal string, maxTerms, maxInst int) []string {
	shifts := sliceShifts(lines)
	seen := map[string]bool{}
	var terms []string // relative index terms
	seenAbs := map[string]bool{}
	var absTerms []string // absolute cell indices (+ (s.off S) X)
	add := func(o idxOcc) {
		if !seen[o.term] && len(terms) < maxTerms {
			seen[o.term] = true
			terms = append(terms, o.term)
		}
		a := "(+ (s.off " + o.slice + ") " + o.term + ")"
		if !seenAbs[a] && len(absTerms) < maxTerms {
			seenAbs[a] = true
			absTerms = append(absTerms, a)
		}
		// the same cell seen from the slice this one was cut from
		for s, t, n := o.slice, o.term, 0; n < 3; n++ {
			sh, ok := shifts[s]
			if !ok {
				break
			}
			t = "(+ " + sh[1] + " " + t + ")"
			s = sh[0]
			if !seen[t] && len(terms) < maxTerms {
				seen[t] = true
				terms = append(terms, t)
			}
		}
	}
	for _, o := range indexOccurrences(goal) {
		add(o)
	}
	for i := len(lines) - 1; i >= 0 && len(terms) < maxTerms; i-- {
		if !strings.Contains(lines[i], "(forall ") {
			for _, o := range indexOccurrences(lines[i]) {
				add(o)
			}
		}
	}
	if len(terms) == 0 {
		return nil
	}
	var qs []qAssume
	for _, l := range lines {
		if q, ok := parseQuantAssert(l); ok && (strings.Contains(q.body, "(s.off ") || q.abs) {
			qs = append(qs, q)
		}
	}
	var out []string
	done := map[string]bool{}
	emit := func(q qAssume, m map[string]string) {
		inst := substTokens(q.body, m)
		for i := len(q.guards) - 1; i >= 0; i-- {
			inst = "(=> " + q.guards[i] + " " + inst + ")"
		}
		a := "(assert " + inst + ")"
		if !done[a] {
			done[a] = true
			out = append(out, a)
		}
	}
	instantiate := func(ts, abs []string) {
		for _, q := range qs {
			if len(out) > maxInst {
				return
			}
			switch {
			case q.abs:
				for _, t := range abs {
					emit(q, map[string]string{q.vars[0]: t})
				}
			case len(q.vars) == 1:
				for _, t := range ts {
					emit(q, map[string]string{q.vars[0]: t})
				}
			default:
				for _, t1 := range ts {
					for _, t2 := range terms {
						if t1 != t2 {
							emit(q, map[string]string{q.vars[0]: t1, q.vars[1]: t2})
							emit(q, map[string]string{q.vars[0]: t2, q.vars[1]: t1})
						}
					}
				}
			}
		}
	}
	instantiate(terms, absTerms)
	// second round: index terms that the first instances introduced (e.g. the
	// position inside the appended slice, k - len(s))
	n0 := len(terms)
	a0 := len(absTerms)
	for _, a := range out {
		for _, o := range indexOccurrences(a) {
			add(o)
		}
	}
	if len(terms) > n0 || len(absTerms) > a0 {
		instantiate(terms[n0:], absTerms[a0:])
	}
	return out
}
