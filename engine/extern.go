package main

import (
	"go/constant"
	"go/types"
	"strconv"
	"strings"

	"golang.org/x/tools/go/ssa"
)

// externModel gives built-in semantics to a few library functions that the
// contract language cannot express. Each is an assumption, reported as such.
func (fx *fexec) externModel(key string, x *ssa.Call, f *ssa.Function, args []Val, st *State, pos string) (Val, bool) {
	vc := fx.vc
	rt := vc.resolve(x.Type())
	nonNilErr := func() Val {
		e := vc.fresh("err", SInt)
		vc.assert(gt(e, intLit(0)))
		return Val{Ty: rt, T: e}
	}
	switch key {
	case "bytes.Compare":
		// byte-wise lexicographic order is the order of the strings the slices convert to
		vc.note("extern bytes.Compare: three-way lexicographic comparison, i.e. the order of string(a) and string(b) (assumed from its documentation)")
		heapOf := func(c, s string) Term { return vc.heapGet(st, c, s) }
		sa := vc.pureApp("string.ofbytes", []Val{args[0]}, types.Typ[types.String], heapOf)
		sb := vc.pureApp("string.ofbytes", []Val{args[1]}, types.Typ[types.String], heapOf)
		less := lt(sa, sb)
		if vc.strSMT {
			less = app(SBool, "str.<", sa, sb)
		}
		r := ite(eq(sa, sb), intLit(0), ite(less, intLit(-1), intLit(1)))
		return Val{Ty: rt, T: vc.define(x.Name(), vc.fromInt(r, rt))}, true
	case "bytes.Equal":
		vc.note("extern bytes.Equal: extensional equality of the byte sequences (assumed)")
		sc := &SpecCtx{vc: vc, st: st, old: st}
		r := vc.define(x.Name(), sc.bytesEqual(args[0], args[1]).T)
		// equal byte sequences convert to equal strings and vice versa (string(b) is a
		// function of the bytes, and an injective one)
		heapOf := func(c, s string) Term { return vc.heapGet(st, c, s) }
		sa := vc.pureApp("string.ofbytes", []Val{args[0]}, types.Typ[types.String], heapOf)
		sb := vc.pureApp("string.ofbytes", []Val{args[1]}, types.Typ[types.String], heapOf)
		vc.assert(eq(r, eq(sa, sb)))
		return Val{Ty: rt, T: r}, true
	case "bytes.HasPrefix":
		// len(s) >= len(p) and the first len(p) bytes agree
		vc.note("extern bytes.HasPrefix: the first len(prefix) bytes agree (assumed)")
		s, p := args[0], args[1]
		et := vc.under(s.Ty).(*types.Slice).Elem()
		comp, srt := vc.elemComp(et)
		h := vc.heapGet(st, comp, srt)
		vc.ctr["qv"]++
		k := Term{"q_k!" + itoa(vc.ctr["qv"]), SInt}
		body := implies(and(le(intLit(0), k), lt(k, sLen(p.T))),
			eq(sel(sel(h, sArr(s.T)), add(sOff(s.T), k)), sel(sel(h, sArr(p.T)), add(sOff(p.T), k))))
		q := Term{"(forall ((" + k.S + " Int)) " + body.S + ")", SBool}
		return Val{Ty: rt, T: vc.define(x.Name(), and(ge(sLen(s.T), sLen(p.T)), q))}, true
	case "errors.New", "fmt.Errorf",
		repoModule + "/tm2/pkg/errors.New", repoModule + "/tm2/pkg/errors.Wrap", repoModule + "/tm2/pkg/errors.Wrapf":
		vc.note("extern " + key + ": returns a fresh non-nil error (assumed)")
		return nonNilErr(), true
	case "strings.Contains", "strings.HasPrefix", "strings.HasSuffix", "strings.Index", "strings.Cut", "strings.TrimPrefix":
		if !vc.strSMT {
			break
		}
		vc.note("extern " + key + ": SMT string-theory semantics (assumed from its documentation)")
		a, b := args[0].T, args[1].T
		switch key {
		case "strings.Contains":
			return Val{Ty: rt, T: vc.define(x.Name(), app(SBool, "str.contains", a, b))}, true
		case "strings.HasPrefix":
			return Val{Ty: rt, T: vc.define(x.Name(), app(SBool, "str.prefixof", b, a))}, true
		case "strings.HasSuffix":
			return Val{Ty: rt, T: vc.define(x.Name(), app(SBool, "str.suffixof", b, a))}, true
		case "strings.Index":
			return Val{Ty: rt, T: vc.fromInt(vc.define(x.Name(), app(SInt, "str.indexof", a, b, intLit(0))), rt)}, true
		case "strings.TrimPrefix":
			la, lb := app(SInt, "str.len", a), app(SInt, "str.len", b)
			return Val{Ty: rt, T: vc.define(x.Name(), ite(app(SBool, "str.prefixof", b, a), app("String", "str.substr", a, lb, sub(la, lb)), a))}, true
		case "strings.Cut":
			i := vc.define(x.Name()+"_i", app(SInt, "str.indexof", a, b, intLit(0)))
			found := vc.define(x.Name()+"_ok", ge(i, intLit(0)))
			la, lb := app(SInt, "str.len", a), app(SInt, "str.len", b)
			before := vc.define(x.Name()+"_b", ite(found, app("String", "str.substr", a, intLit(0), i), a))
			after := vc.define(x.Name()+"_a", ite(found, app("String", "str.substr", a, add(i, lb), sub(la, add(i, lb))), vc.strLit("")))
			tup := rt.(*types.Tuple)
			return Val{Ty: rt, Tup: []Val{{Ty: tup.At(0).Type(), T: before}, {Ty: tup.At(1).Type(), T: after}, {Ty: tup.At(2).Type(), T: found}}}, true
		}
	case "fmt.Sprintf":
		if vc.strSMT {
			if t, ok := fx.sprintfModel(x); ok {
				vc.note("extern fmt.Sprintf with a constant format of literal text and %s verbs applied to string operands: the concatenation (assumed from its documentation)")
				return Val{Ty: rt, T: vc.define(x.Name(), t)}, true
			}
		}
		vc.note("extern " + key + ": returns an unconstrained string (assumed)")
		return vc.freshResult(st, rt, x.Name()), true
	case "fmt.Appendf":
		// fmt.Appendf(nil, <format>, ...): a fresh byte slice whose text (bytestr) is the
		// formatted string (only for the formats formatModel understands, `strings smt`)
		if vc.strSMT && len(x.Call.Args) == 3 {
			if c, isNil := x.Call.Args[0].(*ssa.Const); isNil && c.Value == nil {
				if t, ok := fx.formatModel(x.Call.Args[1], x.Call.Args[2]); ok {
					vc.note("extern fmt.Appendf(nil, constant format, ...): a fresh byte slice spelling the formatted text (assumed from its documentation)")
					s := vc.define(x.Name()+"_s", t)
					n := app(SInt, "str.len", s)
					res := vc.allocSlice(st, vc.under(rt).(*types.Slice).Elem(), n, n, x.Name())
					vc.declUF("bytestr", "("+SSlice+") String")
					vc.assert(eq(app("String", "bytestr", res.T), s))
					res.Ty = rt
					return res, true
				}
			}
		}
		vc.note("extern fmt.Appendf: returns an unconstrained byte slice (assumed)")
		return vc.freshResult(st, rt, x.Name()), true
	case "fmt.Sprint", "strconv.Itoa", "strconv.FormatInt":
		vc.note("extern " + key + ": returns an unconstrained string (assumed)")
		return vc.freshResult(st, rt, x.Name()), true
	case "strings.Compare":
		vc.note("extern strings.Compare: three-way comparison in the string order (assumed)")
		a, b := args[0].T, args[1].T
		var ltT Term
		if vc.strSMT {
			ltT = app(SBool, "str.<", a, b)
		} else {
			ltT = lt(a, b)
		}
		r := ite(ltT, intLit(-1), ite(eq(a, b), intLit(0), intLit(1)))
		return Val{Ty: rt, T: vc.fromInt(r, rt)}, true
	case "math/bits.Len", "math/bits.Len64", "math/bits.Len32", "math/bits.Len8", "math/bits.Len16":
		// position of the leading one: Len(0) = 0, otherwise 2^(L-1) <= x < 2^L
		vc.note("extern math/bits.Len*: 2^(L-1) <= x < 2^L, Len(0) = 0 (assumed from its documentation)")
		xv := vc.toInt(args[0])
		l := vc.fresh("bitlen", SInt)
		vc.assert(and(le(intLit(0), l), le(l, intLit(64))))
		vc.assert(eq(eq(xv, intLit(0)), eq(l, intLit(0))))
		vc.assert(implies(gt(xv, intLit(0)), and(le(vc.pow2Term(sub(l, intLit(1))), xv), lt(xv, vc.pow2Term(l)))))
		return Val{Ty: rt, T: vc.fromInt(l, rt)}, true
	case "encoding/binary.Uvarint", "encoding/binary.Varint":
		// (value, n): n == 0 buffer too small, n < 0 overflow with -n bytes read,
		// otherwise n bytes read; |n| never exceeds len(buf) nor 11. The value is an
		// uninterpreted function of the buffer contents.
		vc.note("extern " + key + ": 0 < n <= min(len, 10) on success, n == 0 too small, -11 <= n < 0 overflow with |n| <= len (assumed from its documentation); value uninterpreted")
		tup := rt.(*types.Tuple)
		vt := tup.At(0).Type()
		heapOf := func(comp, srt string) Term { return vc.heapGet(st, comp, srt) }
		val := vc.define(x.Name()+"_v", vc.pureApp(key+".value", []Val{args[0]}, vt, heapOf))
		vc.assert(vc.typeInv(val, vt, Term{}))
		n := vc.define(x.Name()+"_n", vc.pureApp(key+".n", []Val{args[0]}, types.Typ[types.Int], heapOf))
		ln := sLen(args[0].T)
		vc.assert(and(le(intLit(-11), n), le(n, intLit(10)), le(n, ln), le(sub(intLit(0), n), ln)))
		return Val{Ty: rt, Tup: []Val{{Ty: vt, T: val}, {Ty: types.Typ[types.Int], T: n}}}, true
	case "encoding/binary.PutUvarint", "encoding/binary.PutVarint":
		// writes the n = uvarintLen(x) bytes of the varint at buf[0:n] (panics when the buffer
		// is shorter) and returns n; for PutVarint x is the zig-zag image of the argument.
		// The written bytes themselves are an uninterpreted function of the value.
		vc.note("extern " + key + ": writes uvarintLen(value) bytes at the start of the buffer and returns that count (assumed from its documentation; byte values uninterpreted)")
		buf := args[0]
		xv := vc.toInt(args[1])
		if key == "encoding/binary.PutVarint" {
			// zig-zag: 2x for x >= 0, -2x-1 for x < 0
			xv = vc.define(x.Name()+"_zz", ite(ge(xv, intLit(0)), mul(intLit(2), xv), sub(mul(intLit(-2), xv), intLit(1))))
		}
		n := vc.define(x.Name(), uvarintLenTerm(xv))
		fx.panicPoint(st, lt(sLen(buf.T), n), "bounds", key+" on a short buffer", pos)
		comp, srt := vc.elemComp(vc.under(buf.Ty).(*types.Slice).Elem())
		h := vc.heapGet(st, comp, srt)
		old := sel(h, sArr(buf.T))
		na := vc.fresh("putarr", arrayElemSort(srt))
		vc.ctr["qv"]++
		k := Term{"q_k!" + itoa(vc.ctr["qv"]), SInt}
		body := implies(not(and(le(sOff(buf.T), k), lt(k, add(sOff(buf.T), n)))), eq(sel(na, k), sel(old, k)))
		vc.assert(Term{"(forall ((" + k.S + " Int)) " + body.S + ")", SBool})
		vc.heapSet(st, comp, store(h, sArr(buf.T), na))
		return Val{Ty: rt, T: vc.fromInt(n, rt)}, true
	case "encoding/binary.littleEndian.PutUint32", "encoding/binary.littleEndian.PutUint64", "encoding/binary.littleEndian.PutUint16",
		"encoding/binary.bigEndian.PutUint32", "encoding/binary.bigEndian.PutUint64", "encoding/binary.bigEndian.PutUint16":
		// writes exactly w bytes at buf[0:w]; panics on a shorter buffer
		w := map[string]int64{"16": 2, "32": 4, "64": 8}[key[len(key)-2:]]
		buf := args[len(args)-2]
		fx.panicPoint(st, lt(sLen(buf.T), intLit(w)), "bounds", key+" on a short buffer", pos)
		vc.note("extern " + key + ": writes exactly the first bytes of the buffer (values uninterpreted), panics on a short buffer")
		comp, srt := vc.elemComp(vc.under(buf.Ty).(*types.Slice).Elem())
		h := vc.heapGet(st, comp, srt)
		old := sel(h, sArr(buf.T))
		na := vc.fresh("putarr", arrayElemSort(srt))
		vc.ctr["qv"]++
		k := Term{"q_k!" + itoa(vc.ctr["qv"]), SInt}
		body := implies(not(and(le(sOff(buf.T), k), lt(k, add(sOff(buf.T), intLit(w))))), eq(sel(na, k), sel(old, k)))
		vc.assert(Term{"(forall ((" + k.S + " Int)) " + body.S + ")", SBool})
		vc.heapSet(st, comp, store(h, sArr(buf.T), na))
		return Val{Ty: rt}, true
	case "encoding/binary.littleEndian.Uint32", "encoding/binary.littleEndian.Uint64", "encoding/binary.littleEndian.Uint16",
		"encoding/binary.bigEndian.Uint32", "encoding/binary.bigEndian.Uint64", "encoding/binary.bigEndian.Uint16":
		// panics (index out of range) unless the buffer holds the full width; value uninterpreted
		w := map[string]int64{"16": 2, "32": 4, "64": 8}[key[len(key)-2:]]
		buf := args[len(args)-1]
		fx.panicPoint(st, lt(sLen(buf.T), intLit(w)), "bounds", key+" on a short buffer", pos)
		vc.note("extern " + key + ": reads the first bytes of the buffer (value uninterpreted), panics on a short buffer")
		heapOf := func(comp, srt string) Term { return vc.heapGet(st, comp, srt) }
		v := vc.define(x.Name(), vc.pureApp(key, []Val{buf}, rt, heapOf))
		vc.assert(vc.typeInv(v, rt, Term{}))
		return Val{Ty: rt, T: v}, true
	case "sort.Sort", "sort.Stable":
		// sort.Sort(T(s)) with T a slice type: the elements of s are permuted in place
		// (every new element is an old one and vice versa); the order itself is the
		// Less method's business and is NOT modelled. Anything else: outside the subset.
		sv, ok := vc.boxed[args[0].T.S]
		if !ok {
			panic(engErr("sort.Sort of a value the engine cannot see through"))
		}
		sl, ok := vc.under(sv.Ty).(*types.Slice)
		if !ok {
			panic(engErr("sort.Sort of a non-slice sort.Interface is outside the subset"))
		}
		vc.note("extern " + key + ": permutes the slice in place; the resulting order is not modelled (assumed)")
		comp, srt := vc.elemComp(sl.Elem())
		h := vc.heapGet(st, comp, srt)
		old := sel(h, sArr(sv.T))
		na := vc.fresh("sortarr", arrayElemSort(srt))
		vc.ctr["qv"]++
		n := itoa(vc.ctr["qv"])
		perm, inv := "sortperm!"+n, "sortinv!"+n
		vc.declUF(perm, "(Int) Int")
		vc.declUF(inv, "(Int) Int")
		k := Term{"q_k!" + n, SInt}
		// stated over indices relative to the slice (the shape `off + k` is what the
		// quantified facts about the elements are triggered on)
		off := sOff(sv.T)
		in := func(t Term) Term { return and(le(intLit(0), t), lt(t, sLen(sv.T))) }
		pk, ik := app(SInt, perm, k), app(SInt, inv, k)
		body := implies(in(k), and(in(pk), eq(sel(na, add(off, k)), sel(old, add(off, pk))), in(ik), eq(sel(na, add(off, ik)), sel(old, add(off, k))),
			eq(app(SInt, perm, ik), k), eq(app(SInt, inv, pk), k)))
		vc.assert(Term{"(forall ((" + k.S + " Int)) " + body.S + ")", SBool})
		k2 := Term{"q_k2!" + n, SInt}
		out := implies(not(and(le(off, k2), lt(k2, add(off, sLen(sv.T))))), eq(sel(na, k2), sel(old, k2)))
		vc.assert(Term{"(forall ((" + k2.S + " Int)) " + out.S + ")", SBool})
		vc.heapSet(st, comp, store(h, sArr(sv.T), na))
		return Val{Ty: rt}, true
	case "slices.Delete":
		return fx.slicesDelete(x, args, st, pos), true
	case "sort.Strings":
		return fx.sortStrings(x, args, st), true
	case "sync/atomic.LoadInt64", "sync/atomic.LoadUint64", "sync/atomic.LoadInt32", "sync/atomic.LoadUint32":
		// sequential semantics: the value the cell holds
		vc.note("extern " + key + ": reads the cell (sequential semantics; concurrency is not modelled)")
		if args[0].Loc == nil {
			fx.panicPoint(st, eq(args[0].T, intLit(0)), "nil", "atomic load through a nil pointer", pos)
		}
		l := vc.locOfPtr(args[0])
		t := vc.define(x.Name(), vc.load(st, l))
		vc.assert(vc.typeInv(t, rt, st.alloc))
		return Val{Ty: rt, T: t}, true
	case "maps.Clone":
		// a new map object holding the same keys and values (shallow); nil stays nil
		vc.note("extern maps.Clone: a new map with the same keys and (shallowly copied) values, nil for nil (assumed from its documentation)")
		m := vc.under(args[0].Ty).(*types.Map)
		pcomp, vcomp, vsort, lcomp, lsort := vc.mapComps(m)
		psort := vc.compSort[pcomp]
		src := args[0].T
		ref := st.alloc
		st.alloc = vc.define("alloc", add(st.alloc, intLit(1)))
		ph := vc.heapGet(st, pcomp, psort)
		vh := vc.heapGet(st, vcomp, vsort)
		lh := vc.heapGet(st, lcomp, lsort)
		isNil := eq(src, intLit(0))
		vc.heapSet(st, pcomp, ite(isNil, ph, store(ph, ref, sel(ph, src))))
		vc.heapSet(st, vcomp, ite(isNil, vh, store(vh, ref, sel(vh, src))))
		vc.heapSet(st, lcomp, ite(isNil, lh, store(lh, ref, sel(lh, src))))
		return Val{Ty: rt, T: vc.define(x.Name(), ite(isNil, intLit(0), ref))}, true
	case repoModule + "/tm2/pkg/amino.MustUnmarshal", repoModule + "/tm2/pkg/amino.MustUnmarshalSized", repoModule + "/tm2/pkg/amino.MustUnmarshalAny":
		// Must*: the same decoding, panicking when it reports an error
		ev := fx.aminoUnmarshal(key, x, args, st, pos)
		fx.panicPoint(st, not(eq(ev.T, intLit(0))), "panic", "amino.MustUnmarshal panics on undecodable input", pos)
		return Val{Ty: rt}, true
	case repoModule + "/tm2/pkg/amino.Marshal", repoModule + "/tm2/pkg/amino.MarshalSized", repoModule + "/tm2/pkg/amino.MarshalJSON":
		return fx.aminoMarshal(key, x, args, st, false), true
	case repoModule + "/tm2/pkg/amino.MustMarshal", repoModule + "/tm2/pkg/amino.MustMarshalSized":
		return fx.aminoMarshal(key, x, args, st, true), true
	case repoModule + "/tm2/pkg/amino.Unmarshal", repoModule + "/tm2/pkg/amino.UnmarshalSized",
		repoModule + "/tm2/pkg/amino.UnmarshalAny", repoModule + "/tm2/pkg/amino.UnmarshalJSON":
		return fx.aminoUnmarshal(key, x, args, st, pos), true
	}
	if strings.HasPrefix(key, "math/big.") {
		if r, ok := fx.bigModel(key, x, args, st, pos); ok {
			return r, true
		}
		panic(engErr("math/big function outside the modelled set: " + key))
	}
	if strings.HasPrefix(key, "log/slog.") || strings.HasPrefix(key, "log.") {
		return vc.freshResult(st, rt, x.Name()), true
	}
	return Val{}, false
}

// slicesDelete models slices.Delete(s, i, j): shifts s[j:] down to i in place,
// zeroes the vacated tail and returns s[:len-(j-i)] on the same array.
func (fx *fexec) slicesDelete(x *ssa.Call, args []Val, st *State, pos string) Val {
	vc := fx.vc
	s := args[0]
	i, j := vc.toInt(args[1]), vc.toInt(args[2])
	rt := vc.resolve(x.Type())
	et := vc.under(s.Ty).(*types.Slice).Elem()
	fx.panicPoint(st, not(and(le(intLit(0), i), le(i, j), le(j, sLen(s.T)))), "slice", "slices.Delete bounds", pos)
	comp, srt := vc.elemComp(et)
	h := vc.heapGet(st, comp, srt)
	old := sel(h, sArr(s.T))
	d := vc.define("deld", sub(j, i))
	fa := vc.fresh("delarr", arrayElemSort(srt))
	vc.ctr["qv"]++
	k := Term{"q_k!" + itoa(vc.ctr["qv"]), SInt}
	off := sOff(s.T)
	ln := sLen(s.T)
	rel := sub(k, off)
	body := eq(sel(fa, k),
		ite(and(le(add(off, i), k), lt(k, add(off, sub(ln, d)))), sel(old, add(k, d)),
			ite(and(le(add(off, sub(ln, d)), k), lt(k, add(off, ln))), vc.zero(et), sel(old, k))))
	_ = rel
	vc.assert(Term{"(forall ((" + k.S + " Int)) " + body.S + ")", SBool})
	// when i == j nothing is written
	vc.heapSet(st, comp, ite(eq(d, intLit(0)), h, store(h, sArr(s.T), fa)))
	vc.note("extern slices.Delete: in-place shift and zeroing of the vacated tail (assumed from its documentation)")
	return Val{Ty: rt, T: vc.define(x.Name(), mkSlice(sArr(s.T), off, sub(ln, d), sCap(s.T)))}
}

func itoa(i int) string { return strconv.Itoa(i) }

// externAssigns reports the heap components written by a modelled extern.
func externAssigns(vc *VC, key string, cc *ssa.CallCommon) (map[string]string, bool) {
	switch key {
	case "slices.Delete":
		sl := vc.under(cc.Args[0].Type()).(*types.Slice)
		comp, srt := vc.elemComp(sl.Elem())
		return map[string]string{comp: srt}, true
	case "encoding/binary.PutUvarint", "encoding/binary.PutVarint",
		"encoding/binary.littleEndian.PutUint32", "encoding/binary.littleEndian.PutUint64", "encoding/binary.littleEndian.PutUint16",
		"encoding/binary.bigEndian.PutUint32", "encoding/binary.bigEndian.PutUint64", "encoding/binary.bigEndian.PutUint16":
		for _, a := range cc.Args {
			if sl, ok := vc.under(a.Type()).(*types.Slice); ok {
				comp, srt := vc.elemComp(sl.Elem())
				return map[string]string{comp: srt}, true
			}
		}
	case "sort.Sort", "sort.Stable":
		if mi, ok := cc.Args[0].(*ssa.MakeInterface); ok {
			if sl, ok := vc.under(mi.X.Type()).(*types.Slice); ok {
				comp, srt := vc.elemComp(sl.Elem())
				return map[string]string{comp: srt}, true
			}
		}
	case "sort.Strings":
		comp, srt := vc.elemComp(types.Typ[types.String])
		return map[string]string{comp: srt}, true
	case "maps.Clone":
		if m, ok := vc.under(cc.Args[0].Type()).(*types.Map); ok {
			pcomp, vcomp, vsort, lcomp, lsort := vc.mapComps(m)
			return map[string]string{pcomp: vc.compSort[pcomp], vcomp: vsort, lcomp: lsort}, true
		}
	case repoModule + "/tm2/pkg/amino.Marshal", repoModule + "/tm2/pkg/amino.MarshalSized", repoModule + "/tm2/pkg/amino.MarshalJSON",
		repoModule + "/tm2/pkg/amino.MustMarshal", repoModule + "/tm2/pkg/amino.MustMarshalSized":
		if sl, ok := vc.under(cc.Signature().Results().At(0).Type()).(*types.Slice); ok {
			comp, srt := vc.elemComp(sl.Elem())
			return map[string]string{comp: srt}, true
		}
	case "bytes.Compare", "bytes.Equal", "bytes.HasPrefix", "errors.New", "fmt.Errorf", "fmt.Sprintf", "fmt.Sprint", "strings.Compare",
		"sync/atomic.LoadInt64", "sync/atomic.LoadUint64", "sync/atomic.LoadInt32", "sync/atomic.LoadUint32":
		return map[string]string{}, true
	}
	if strings.HasPrefix(key, "math/big.") {
		return map[string]string{bigComp: bigSort}, true
	}
	return nil, false
}

// ifaceModel gives semantics to interface method calls by contract.
func (fx *fexec) ifaceModel(name string, x *ssa.Call, recv Val, args []Val, st *State) (Val, bool) {
	vc := fx.vc
	c := vc.eng.contracts.Funcs[name]
	if c == nil {
		return Val{}, false
	}
	rt := vc.resolve(x.Type())
	if c.Pure {
		if tup, ok := rt.(*types.Tuple); ok && tup.Len() != 1 {
			panic(engErr("pure interface method must have one result"))
		}
		all := append([]Val{recv}, args...)
		t := vc.pureApp(name, all, rt, func(comp, srt string) Term { return vc.heapGet(st, comp, srt) })
		v := Val{Ty: rt, T: vc.define(x.Name(), t)}
		vc.assert(vc.typeInv(v.T, rt, st.alloc))
		return v, true
	}
	// general (assumed) contract on the interface method
	sig := x.Call.Method.Type().(*types.Signature)
	vars := map[string]Val{"self": recv}
	for i := 0; i < sig.Params().Len() && i < len(args); i++ {
		if n := sig.Params().At(i).Name(); n != "" {
			vars[n] = args[i]
		}
		vars["a"+strconv.Itoa(i)] = args[i]
	}
	vc.note("interface method " + name + " replaced by its assumed contract")
	return fx.applyContractSig(c, sig, vars, vc.eng.pkgTypes(c.Pkg, fx.fn.Pkg.Pkg), st, fx.posOf(x), x.Name()), true
}

// sprintfModel recognises fmt.Sprintf(<constant format>, s1, ..., sn) where the format
// consists of literal text and plain %s verbs and every operand is a string-typed value
// boxed at the call site; the result is then the concatenation. Anything else: no model.
func (fx *fexec) sprintfModel(x *ssa.Call) (Term, bool) {
	if len(x.Call.Args) != 2 {
		return Term{}, false
	}
	return fx.formatModel(x.Call.Args[0], x.Call.Args[1])
}

// itoaTerm is the decimal rendering of an integer (SMT str.from_int, with the sign).
func itoaTerm(v Term) Term {
	return ite(ge(v, intLit(0)), app("String", "str.from_int", v), app("String", "str.++", Term{"\"-\"", "String"}, app("String", "str.from_int", sub(intLit(0), v))))
}

// formatModel: the string a fmt verb-formatting call produces for a constant format of
// literal text, %s on string operands, %v/%d on integer operands (decimal) and %x on
// integer operands (an uninterpreted rendering hexOf). Anything else: no model.
func (fx *fexec) formatModel(fmtArg, varArg ssa.Value) (Term, bool) {
	vc := fx.vc
	fc, ok := fmtArg.(*ssa.Const)
	if !ok || fc.Value == nil || fc.Value.Kind() != constant.String {
		return Term{}, false
	}
	format := constant.StringVal(fc.Value)
	var ops []ssa.Value
	switch v := varArg.(type) {
	case *ssa.Const: // nil variadic slice
	case *ssa.Slice:
		al, ok := v.X.(*ssa.Alloc)
		if !ok || v.Low != nil || v.High != nil {
			return Term{}, false
		}
		at, ok := al.Type().(*types.Pointer).Elem().Underlying().(*types.Array)
		if !ok {
			return Term{}, false
		}
		ops = make([]ssa.Value, at.Len())
		for _, r := range *al.Referrers() {
			switch ia := r.(type) {
			case *ssa.IndexAddr:
				ic, ok := ia.Index.(*ssa.Const)
				if !ok {
					return Term{}, false
				}
				idx := int(ic.Int64())
				for _, rr := range *ia.Referrers() {
					s, ok := rr.(*ssa.Store)
					if !ok || idx < 0 || idx >= len(ops) || ops[idx] != nil {
						return Term{}, false
					}
					mi, ok := s.Val.(*ssa.MakeInterface)
					if !ok {
						return Term{}, false
					}
					ops[idx] = mi.X
				}
			case *ssa.Slice, *ssa.DebugRef:
			default:
				return Term{}, false
			}
		}
	default:
		return Term{}, false
	}
	var parts []Term
	lit := ""
	k := 0
	for i := 0; i < len(format); i++ {
		if format[i] != '%' {
			lit += string(format[i])
			continue
		}
		if i+1 >= len(format) {
			return Term{}, false
		}
		i++
		switch format[i] {
		case '%':
			lit += "%"
		case 's':
			if k >= len(ops) || ops[k] == nil {
				return Term{}, false
			}
			bt, ok := ops[k].Type().Underlying().(*types.Basic)
			if !ok || bt.Info()&types.IsString == 0 || !types.Identical(ops[k].Type(), types.Typ[types.String]) {
				return Term{}, false // named string types may have a String/Error method
			}
			if lit != "" {
				parts = append(parts, vc.strLit(lit))
				lit = ""
			}
			parts = append(parts, fx.val(ops[k]).T)
			k++
		case 'v', 'd', 'x':
			if k >= len(ops) || ops[k] == nil {
				return Term{}, false
			}
			bt, ok := ops[k].Type().Underlying().(*types.Basic)
			if !ok || bt.Info()&types.IsInteger == 0 || ops[k].Type() != types.Type(bt) {
				return Term{}, false // named integer types may have a String method
			}
			if lit != "" {
				parts = append(parts, vc.strLit(lit))
				lit = ""
			}
			iv := vc.toInt(fx.val(ops[k]))
			if format[i] == 'x' {
				vc.declUF("hexOf", "(Int) String")
				parts = append(parts, app("String", "hexOf", iv))
			} else {
				parts = append(parts, itoaTerm(iv))
			}
			k++
		default:
			return Term{}, false
		}
	}
	if k != len(ops) {
		return Term{}, false
	}
	if lit != "" || len(parts) == 0 {
		parts = append(parts, vc.strLit(lit))
	}
	if len(parts) == 1 {
		return parts[0], true
	}
	return app("String", "str.++", parts...), true
}

// uvarintLenTerm: number of bytes of the base-128 varint of a non-negative integer below 2^64.
func uvarintLenTerm(x Term) Term {
	t := intLit(10)
	for n := 9; n >= 1; n-- {
		t = ite(lt(x, bigLit(pow2(7*n))), intLit(int64(n)), t)
	}
	return t
}
