package main

import (
	"fmt"
	"go/token"
	"go/types"
	"sort"
	"strings"

	"golang.org/x/tools/go/ssa"
)

type loopRT struct {
	entry   *State // state on loop entry (before havoc)
	phiVals map[*ssa.Phi]Val
}

// loopVars builds the name -> value map visible to invariants of loop li,
// with header phis bound by phiVal.
func (fx *fexec) loopVars(li *loopInfo, phiVal func(*ssa.Phi) Val) map[string]Val {
	vars := map[string]Val{}
	for k, v := range fx.params {
		vars[k] = v
	}
	// variables defined before the loop (by DebugRef), deepest dominating definition wins
	type cand struct {
		depth, idx int
		v          ssa.Value
	}
	best := map[string]cand{}
	domDepth := func(b *ssa.BasicBlock) int {
		d := 0
		for x := b.Idom(); x != nil; x = x.Idom() {
			d++
		}
		return d
	}
	for _, b := range fx.fn.Blocks {
		if b == li.header || !b.Dominates(li.header) {
			continue
		}
		dd := domDepth(b)
		for i, in := range b.Instrs {
			if phi, isPhi := in.(*ssa.Phi); isPhi {
				// a variable merged at a dominating block (e.g. the header of an earlier
				// loop that reassigns it): its value after that merge
				if phi.Comment != "" && !strings.Contains(phi.Comment, ".") && phi.Comment != "rangeindex" {
					if _, have := fx.env[phi]; have {
						c := cand{dd, -1, phi}
						if o, ok := best[phi.Comment]; !ok || c.depth > o.depth {
							best[phi.Comment] = c
						}
					}
				}
				continue
			}
			d, ok := in.(*ssa.DebugRef)
			if !ok {
				continue
			}
			if d.IsAddr {
				// address-taken struct variable: visible as its address (field
				// selection in contracts auto-dereferences, as in Go)
				pt, isPtr := d.X.Type().Underlying().(*types.Pointer)
				if !isPtr {
					continue
				}
				if _, isStruct := pt.Elem().Underlying().(*types.Struct); !isStruct {
					continue
				}
			}
			obj := d.Object()
			if obj == nil {
				continue
			}
			if _, isVar := obj.(*types.Var); !isVar {
				continue
			}
			if _, have := fx.env[d.X]; !have {
				if _, isConst := d.X.(*ssa.Const); !isConst {
					continue
				}
			}
			c := cand{dd, i, d.X}
			if o, ok := best[obj.Name()]; !ok || c.depth > o.depth || (c.depth == o.depth && c.idx > o.idx) {
				best[obj.Name()] = c
			}
		}
	}
	for n, c := range best {
		vars[n] = fx.val(c.v)
	}
	for _, in := range li.header.Instrs {
		phi, ok := in.(*ssa.Phi)
		if !ok {
			break
		}
		if phi.Comment != "" {
			vars[phi.Comment] = phiVal(phi)
		}
		// `for i, x := range s`: #i is the index of the next element (= completed iterations)
		if phi.Comment == "rangeindex" || phi.Comment == "rangeint.iter" {
			pv := phiVal(phi)
			if pv.T.S != "" {
				if phi.Comment == "rangeindex" {
					pv.T = add(fx.vc.toInt(pv), intLit(1))
				} else {
					pv.T = fx.vc.toInt(pv)
				}
				pv.Ty = specInt
				if _, isConst := constOf(pv.T); !isConst {
					// an atomic name, so that quantified facts instantiate at s[#i] by E-matching
					n := fx.vc.fresh("iter", SInt)
					fx.vc.assert(eq(n, pv.T))
					pv.T = n
				}
				vars["#i"] = pv
			}
		}
	}
	return vars
}

func (fx *fexec) loopSpec(li *loopInfo) *LoopSpec {
	if fx.spec == nil || fx.spec.Loops == nil {
		return nil
	}
	return fx.spec.Loops[li.ordinal]
}

// enterLoop checks the invariants on entry, havocs the loop targets and assumes the invariants.
func (fx *fexec) enterLoop(li *loopInfo, cur *State) *State {
	vc := fx.vc
	h := li.header
	ls := fx.loopSpec(li)
	// entry values of the header phis (forward edges only)
	entryVals := map[*ssa.Phi]Val{}
	for _, in := range h.Instrs {
		phi, ok := in.(*ssa.Phi)
		if !ok {
			break
		}
		var res *Val
		for i := len(h.Preds) - 1; i >= 0; i-- {
			p := h.Preds[i]
			if h.Dominates(p) {
				continue
			}
			s, ok := fx.edgeSt[fx.edgeKey(p, h)]
			if !ok || s.reach.IsFalse() {
				continue
			}
			v := fx.val(phi.Edges[i])
			if res == nil {
				res = &v
			} else {
				m := vc.iteVal(s.reach, v, *res)
				res = &m
			}
		}
		if res != nil {
			entryVals[phi] = *res
		}
	}
	pkg := fx.fn.Pkg.Pkg
	if ls != nil {
		vars := fx.loopVars(li, func(p *ssa.Phi) Val { return entryVals[p] })
		sc := &SpecCtx{vc: vc, vars: vars, st: cur, old: fx.entry, pkg: pkg}
		for j, inv := range ls.Invariants {
			o := vc.oblige(cur, "inv-entry", fmt.Sprintf("loop %d invariant %d holds on entry: %s", li.ordinal, j+1, inv.Src), sc.evalBool(inv.X))
			o.Pos = fmt.Sprintf("loop %d", li.ordinal)
		}
	}
	// havoc
	hs := cur.clone()
	mod := fx.loopModifies(li, cur)
	var comps []string
	for c := range mod.comps {
		comps = append(comps, c)
	}
	sort.Strings(comps)
	for _, c := range comps {
		srt := mod.comps[c]
		old := vc.heapGet(cur, c, srt)
		tg := mod.targets[c]
		if (tg != nil || mod.fresh[c]) && !mod.coarse[c] {
			// exact frame: only the listed (loop-invariant) references change, plus — when
			// the component is also written at references allocated inside the loop —
			// anything at or above the allocation counter of the loop entry
			nv := old
			if mod.fresh[c] {
				f := vc.fresh("loop_"+c, srt)
				vc.ctr["qv"]++
				r := Term{fmt.Sprintf("q_r!%d", vc.ctr["qv"]), SInt}
				body := implies(lt(r, cur.alloc), eq(sel(f, r), sel(old, r)))
				vc.assert(Term{fmt.Sprintf("(forall ((%s Int)) %s)", r.S, body.S), SBool})
				nv = f
			}
			for _, r := range tg {
				f := vc.fresh("loop_"+c, arrayElemSort(srt))
				nv = store(nv, r, f)
			}
			hs.heap[c] = vc.define(c, nv)
		} else {
			hs.heap[c] = vc.fresh("loop_"+c, srt)
		}
	}
	if mod.allocs {
		hs.alloc = vc.freshAlloc(cur.alloc)
	}
	for _, in := range h.Instrs {
		phi, ok := in.(*ssa.Phi)
		if !ok {
			break
		}
		ev, ok := entryVals[phi]
		if !ok {
			continue
		}
		// a phi whose back-edge operands are all the phi itself is not modified by the loop
		unchanged := true
		for i, p := range h.Preds {
			if h.Dominates(p) && phi.Edges[i] != ssa.Value(phi) {
				unchanged = false
			}
		}
		if unchanged {
			if ev.T.S != "" {
				ev.T = vc.define(phi.Name(), ev.T)
			}
			ev.Ty = vc.resolve(phi.Type())
			fx.env[phi] = ev
			continue
		}
		if ev.T.S == "" {
			panic(engErr("loop-carried non-term value " + phi.Name()))
		}
		t := vc.resolve(phi.Type())
		nm := phi.Comment
		if nm == "" {
			nm = phi.Name()
		}
		f := vc.fresh("loop_"+nm, vc.sortOf(t))
		vc.assert(vc.typeInv(f, t, hs.alloc))
		fx.env[phi] = Val{Ty: t, T: f}
	}
	if ls != nil {
		vars := fx.loopVars(li, func(p *ssa.Phi) Val { return fx.env[p] })
		sc := &SpecCtx{vc: vc, vars: vars, st: hs, old: fx.entry, pkg: pkg}
		for _, inv := range ls.Invariants {
			vc.assume(hs, sc.evalBool(inv.X))
		}
	}
	return hs
}

// backEdge checks that the invariants are preserved along from -> header.
func (fx *fexec) backEdge(li *loopInfo, from *ssa.BasicBlock, st *State) {
	vc := fx.vc
	ls := fx.loopSpec(li)
	if ls == nil {
		return
	}
	h := li.header
	pi := -1
	for i, p := range h.Preds {
		if p == from {
			pi = i
		}
	}
	vars := fx.loopVars(li, func(p *ssa.Phi) Val { return fx.val(p.Edges[pi]) })
	sc := &SpecCtx{vc: vc, vars: vars, st: st, old: fx.entry, pkg: fx.fn.Pkg.Pkg}
	for j, inv := range ls.Invariants {
		o := vc.oblige(st, "inv-step", fmt.Sprintf("loop %d invariant %d is preserved: %s", li.ordinal, j+1, inv.Src), sc.evalBool(inv.X))
		o.Pos = fmt.Sprintf("loop %d", li.ordinal)
	}
	if ls.Decreases != nil {
		// measure at the header (havocked values) vs. at the back edge
		hv := fx.loopVars(li, func(p *ssa.Phi) Val { return fx.env[p] })
		hsc := &SpecCtx{vc: vc, vars: hv, st: st, old: fx.entry, pkg: fx.fn.Pkg.Pkg}
		m0 := vc.toInt(hsc.eval(ls.Decreases.X))
		m1 := vc.toInt(sc.eval(ls.Decreases.X))
		vc.oblige(st, "decreases", fmt.Sprintf("loop %d measure decreases and is bounded: %s", li.ordinal, ls.Decreases.Src), and(ge(m0, intLit(0)), lt(m1, m0)))
	}
}

type modSet struct {
	comps   map[string]string // component -> sort
	targets map[string][]Term // component -> loop-invariant references written
	coarse  map[string]bool   // component written through a non-invariant reference
	fresh   map[string]bool   // component written at references allocated inside the loop
	allocs  bool
	varying func(ssa.Value) bool
	// pending: writes through a slice/pointer that is itself loaded, inside the scanned
	// region, from a field of a loop-invariant object; exact iff that field's component
	// turns out not to be written in the region (decided after the scan)
	pending []pendingTarget
}

type pendingTarget struct {
	comp, srt         string
	fieldComp, fieldS string
	ptr               Term
	refOf             func(Val) Term
	ty                types.Type
}

func newModSet() *modSet {
	return &modSet{comps: map[string]string{}, targets: map[string][]Term{}, coarse: map[string]bool{}, fresh: map[string]bool{}}
}

// loopModifies over-approximates the heap components written in the loop body.
func (fx *fexec) loopModifies(li *loopInfo, cur *State) *modSet {
	ms := newModSet()
	inBody := func(v ssa.Value) bool {
		switch x := v.(type) {
		case *ssa.Parameter, *ssa.Const, *ssa.Global, *ssa.FreeVar, *ssa.Function:
			return false
		case ssa.Instruction:
			return li.body[x.Block()]
		}
		return true
	}
	ms.varying = inBody
	fx.scanModifies(fx.fn, func(b *ssa.BasicBlock) bool { return li.body[b] }, inBody, ms, 0)
	for _, pt := range ms.pending {
		if _, written := ms.comps[pt.fieldComp]; written || cur == nil {
			ms.coarse[pt.comp] = true
			continue
		}
		// the field is not written in the loop: its value at the loop entry is the
		// value every iteration loads
		fv := Val{Ty: pt.ty, T: sel(fx.vc.heapGet(cur, pt.fieldComp, pt.fieldS), pt.ptr)}
		r := pt.refOf(fv)
		dup := false
		for _, t := range ms.targets[pt.comp] {
			dup = dup || t.S == r.S
		}
		if !dup {
			ms.targets[pt.comp] = append(ms.targets[pt.comp], r)
		}
	}
	return ms
}

func (fx *fexec) scanModifies(fn *ssa.Function, inScope func(*ssa.BasicBlock) bool, varying func(ssa.Value) bool, ms *modSet, depth int) {
	vc := fx.vc
	addTarget := func(comp, srt string, base ssa.Value, refOf func(Val) Term) {
		ms.comps[comp] = srt
		if a, isAlloc := base.(*ssa.Alloc); isAlloc && (inScope == nil || inScope(a.Block())) {
			ms.fresh[comp] = true // a cell allocated inside the scanned region
			return
		}
		if varying != nil && base != nil && varying(base) && depth == 0 {
			// a load of a field of a loop-invariant object: decided after the scan
			if ld, ok := base.(*ssa.UnOp); ok && ld.Op == token.MUL {
				if fa, ok := ld.X.(*ssa.FieldAddr); ok && !varying(fa.X) {
					pv, okv := fx.env[fa.X]
					if !okv {
						if p, isParam := fa.X.(*ssa.Parameter); isParam {
							pv, okv = fx.params[p.Name()]
						}
					}
					if okv && pv.T.S != "" && pv.Loc == nil {
						if ppt, ok := vc.under(fa.X.Type()).(*types.Pointer); ok {
							fc, fs := vc.fieldComp(ppt.Elem(), fa.Field)
							ms.pending = append(ms.pending, pendingTarget{comp: comp, srt: srt, fieldComp: fc, fieldS: fs, ptr: pv.T, refOf: refOf, ty: vc.resolve(ld.Type())})
							return
						}
					}
				}
			}
		}
		if varying == nil || base == nil || varying(base) {
			ms.coarse[comp] = true
			return
		}
		bv, ok := fx.env[base]
		if !ok {
			if p, isParam := base.(*ssa.Parameter); isParam {
				bv, ok = fx.params[p.Name()]
			}
		}
		if !ok || bv.T.S == "" {
			ms.coarse[comp] = true
			return
		}
		r := refOf(bv)
		for _, t := range ms.targets[comp] {
			if t.S == r.S {
				return
			}
		}
		ms.targets[comp] = append(ms.targets[comp], r)
	}
	var rootOf func(addr ssa.Value)
	rootOf = func(addr ssa.Value) {
		switch a := addr.(type) {
		case *ssa.FieldAddr:
			pt := vc.under(a.X.Type()).(*types.Pointer)
			switch a.X.(type) {
			case *ssa.FieldAddr, *ssa.IndexAddr:
				rootOf(a.X)
			default:
				comp, srt := vc.fieldComp(pt.Elem(), a.Field)
				addTarget(comp, srt, a.X, func(v Val) Term { return v.T })
			}
		case *ssa.IndexAddr:
			switch u := vc.under(a.X.Type()).(type) {
			case *types.Slice:
				comp, srt := vc.elemComp(u.Elem())
				addTarget(comp, srt, a.X, func(v Val) Term { return sArr(v.T) })
			case *types.Pointer:
				switch a.X.(type) {
				case *ssa.FieldAddr, *ssa.IndexAddr:
					rootOf(a.X)
				default:
					comp, srt := vc.cellComp(u.Elem())
					addTarget(comp, srt, a.X, func(v Val) Term { return v.T })
				}
			}
		default:
			pt, ok := vc.under(addr.Type()).(*types.Pointer)
			if !ok {
				return
			}
			if st, isStruct := vc.under(pt.Elem()).(*types.Struct); isStruct {
				for i := 0; i < st.NumFields(); i++ {
					comp, srt := vc.fieldComp(pt.Elem(), i)
					addTarget(comp, srt, addr, func(v Val) Term { return v.T })
				}
				return
			}
			comp, srt := vc.cellComp(pt.Elem())
			addTarget(comp, srt, addr, func(v Val) Term { return v.T })
		}
	}
	for _, b := range fn.Blocks {
		if inScope != nil && !inScope(b) {
			continue
		}
		for _, in := range b.Instrs {
			switch x := in.(type) {
			case *ssa.Store:
				rootOf(x.Addr)
			case *ssa.Alloc:
				ms.allocs = true
				// the zero-initialisation writes the cell of the fresh reference
				et := x.Type().(*types.Pointer).Elem()
				if st, isStruct := vc.under(et).(*types.Struct); isStruct {
					for i := 0; i < st.NumFields(); i++ {
						comp, srt := vc.fieldComp(et, i)
						ms.comps[comp] = srt
						ms.fresh[comp] = true
					}
				} else if isBigInt(vc.resolve(et)) {
					ms.comps[bigComp] = bigSort
					ms.fresh[bigComp] = true
				} else {
					comp, srt := vc.cellComp(et)
					ms.comps[comp] = srt
					ms.fresh[comp] = true
				}
			case *ssa.MakeSlice:
				ms.allocs = true
				comp, srt := vc.elemComp(vc.under(x.Type()).(*types.Slice).Elem())
				ms.comps[comp] = srt
				ms.fresh[comp] = true
			case *ssa.Next:
				// a step of a map iteration extends the set of delivered keys
				if r, ok := x.Iter.(*ssa.Range); ok && !x.IsString {
					if m, isMap := vc.under(r.X.Type()).(*types.Map); isMap {
						comp := rangeComp(r)
						ms.comps[comp] = arraySort(vc.sortOf(m.Key()), SBool)
						ms.coarse[comp] = true
					}
				}
			case *ssa.MakeMap:
				ms.allocs = true
				m := vc.under(x.Type()).(*types.Map)
				pc, vcmp, vs, lc, lsrt := vc.mapComps(m)
				ms.comps[pc], ms.comps[vcmp], ms.comps[lc] = vc.compSort[pc], vs, lsrt
				ms.coarse[pc], ms.coarse[vcmp], ms.coarse[lc] = true, true, true
			case *ssa.MapUpdate:
				m := vc.under(x.Map.Type()).(*types.Map)
				pc, vcmp, vs, lc, lsrt := vc.mapComps(m)
				ms.comps[pc], ms.comps[vcmp], ms.comps[lc] = vc.compSort[pc], vs, lsrt
				ms.coarse[pc], ms.coarse[vcmp], ms.coarse[lc] = true, true, true
			case *ssa.Slice:
				if pt, ok := vc.under(x.X.Type()).(*types.Pointer); ok {
					if at, ok := vc.under(pt.Elem()).(*types.Array); ok {
						comp, srt := vc.elemComp(at.Elem())
						ms.comps[comp] = srt
						if a, isAlloc := x.X.(*ssa.Alloc); isAlloc && (inScope == nil || inScope(a.Block())) {
							ms.fresh[comp] = true
						} else {
							ms.coarse[comp] = true
						}
					}
				}
			case *ssa.Convert:
				if sl, ok := vc.under(x.Type()).(*types.Slice); ok {
					ms.allocs = true
					comp, srt := vc.elemComp(sl.Elem())
					ms.comps[comp] = srt
					ms.coarse[comp] = true
				}
			case *ssa.Call:
				fx.scanCallModifies(x, ms, depth)
			}
		}
	}
}

func (fx *fexec) scanCallModifies(x *ssa.Call, ms *modSet, depth int) {
	vc := fx.vc
	cc := &x.Call
	if cc.IsInvoke() {
		// an interface method replaced by its (assumed) contract: what that contract assigns
		// changes in the loop too
		it := types.Unalias(vc.resolve(cc.Value.Type()))
		name := ""
		if n, ok := it.(*types.Named); ok && n.Obj().Pkg() != nil {
			name = n.Obj().Pkg().Path() + "." + n.Obj().Name() + "." + cc.Method.Name()
		} else if it.String() == "error" {
			name = "error." + cc.Method.Name()
		}
		c := vc.eng.contracts.Funcs[name]
		if c == nil || c.Pure {
			return
		}
		sig, _ := cc.Method.Type().(*types.Signature)
		for _, a := range c.Assigns {
			if a.X.K == "ghost" {
				l := (&SpecCtx{vc: vc, st: &State{heap: map[string]Term{}}}).ghostLoc(vc.eng.contracts.Ghosts[a.X.Op])
				ms.comps[l.Comp] = l.Sort
				ms.targets[l.Comp] = append(ms.targets[l.Comp], intLit(1))
				continue
			}
			// anything else an interface contract assigns: resolve the component by types,
			// with the method's parameters (a0, a1, ... and self) as dummies; coarse
			vars := map[string]Val{}
			rt := vc.resolve(cc.Value.Type())
			vars["self"] = Val{Ty: rt, T: Term{"dummy", vc.sortOf(rt)}}
			if sig != nil {
				for i := 0; i < sig.Params().Len(); i++ {
					pt := vc.resolve(sig.Params().At(i).Type())
					vars[fmt.Sprintf("a%d", i)] = Val{Ty: pt, T: Term{"dummy", vc.sortOf(pt)}}
				}
			}
			sc := &SpecCtx{vc: vc, vars: vars, st: &State{heap: map[string]Term{}}, hp: &heapParams{comps: map[string]string{}}}
			var comp, srt string
			switch a.X.K {
			case "allfield":
				sty, fi := sc.structField(a.X)
				comp, srt = vc.fieldComp(sty, fi)
			case "idx":
				s := sc.eval(a.X.Args[0])
				comp, srt = vc.elemComp(vc.under(s.Ty).(*types.Slice).Elem())
			case "sel":
				base := sc.eval(a.X.Args[0])
				pt := vc.resolve(base.Ty).Underlying().(*types.Pointer)
				_, path := lookupFieldAnyPkg(pt.Elem(), a.X.Op)
				comp, srt = vc.fieldComp(pt.Elem(), path[0])
			default:
				panic(engErr("loop frame: unsupported assigns location in the contract of " + name + ": " + a.X.String()))
			}
			ms.comps[comp] = srt
			ms.coarse[comp] = true
		}
		ms.allocs = true
		return
	}
	switch callee := cc.Value.(type) {
	case *ssa.Builtin:
		switch callee.Name() {
		case "append", "copy":
			if sl, ok := vc.under(cc.Args[0].Type()).(*types.Slice); ok {
				comp, srt := vc.elemComp(sl.Elem())
				ms.comps[comp] = srt
				ms.coarse[comp] = true
				if callee.Name() == "append" {
					ms.allocs = true
				}
			}
		case "delete":
			m := vc.under(cc.Args[0].Type()).(*types.Map)
			pc, _, _, lc, lsrt := vc.mapComps(m)
			ms.comps[pc], ms.comps[lc] = vc.compSort[pc], lsrt
			ms.coarse[pc], ms.coarse[lc] = true, true
		}
	case *ssa.Function:
		key := funcKey(callee)
		if ignoredFuncs[key] {
			return
		}
		body := callee
		if o := callee.Origin(); o != nil {
			body = o
		}
		if comps, ok := externAssigns(vc, key, cc); ok {
			for c, s := range comps {
				ms.comps[c] = s
				ms.coarse[c] = true
			}
			ms.allocs = true
			return
		}
		c := vc.eng.contracts.Funcs[key]
		if c != nil && !c.Inline {
			ms.allocs = true
			for _, a := range c.Assigns {
				comp, srt := fx.assignComp(c, body, a.X)
				ms.comps[comp] = srt
				// `p.f` with p a parameter of the callee bound to a loop-invariant
				// argument: only that reference is written
				exact := false
				if a.X.K == "sel" && a.X.Args[0].K == "id" && depth == 0 {
					for i, p := range body.Params {
						if p.Name() == a.X.Args[0].Op && i < len(cc.Args) {
							arg := cc.Args[i]
							if ms.varying != nil && !ms.varying(arg) {
								if av, ok := fx.env[arg]; ok && av.T.S != "" && av.Loc == nil {
									dup := false
									for _, t := range ms.targets[comp] {
										dup = dup || t.S == av.T.S
									}
									if !dup {
										ms.targets[comp] = append(ms.targets[comp], av.T)
									}
									exact = true
								}
							}
						}
					}
				}
				if a.X.K == "ghost" {
					ms.targets[comp] = append(ms.targets[comp], intLit(1))
					exact = true
				}
				if !exact {
					ms.coarse[comp] = true
				}
			}
			return
		}
		if len(body.Blocks) > 0 && depth < 6 {
			fx.scanModifies(body, nil, nil, ms, depth+1)
		}
	}
}

// assignComp determines the heap component named by an assigns location, using types only.
func (fx *fexec) assignComp(c *Contract, f *ssa.Function, x *SX) (string, string) {
	vc := fx.vc
	vars := map[string]Val{}
	for _, p := range f.Params {
		t := vc.resolve(p.Type())
		vars[p.Name()] = Val{Ty: t, T: Term{"dummy", vc.sortOf(t)}}
	}
	sc := &SpecCtx{vc: vc, vars: vars, st: &State{heap: map[string]Term{}}, pkg: f.Pkg.Pkg, hp: &heapParams{comps: map[string]string{}}}
	switch x.K {
	case "allfield":
		sty, fi := sc.structField(x)
		return vc.fieldComp(sty, fi)
	case "cell":
		p := sc.eval(x.Args[0])
		return vc.cellComp(vc.under(p.Ty).(*types.Pointer).Elem())
	case "ghost":
		l := sc.ghostLoc(vc.eng.contracts.Ghosts[x.Op])
		return l.Comp, l.Sort
	case "sel":
		base := sc.eval(x.Args[0])
		pt := vc.resolve(base.Ty).Underlying().(*types.Pointer)
		_, path := lookupFieldAnyPkg(pt.Elem(), x.Op)
		return vc.fieldComp(pt.Elem(), path[0])
	case "idx":
		s := sc.eval(x.Args[0])
		return vc.elemComp(vc.under(s.Ty).(*types.Slice).Elem())
	}
	panic(engErr("assigns: unsupported location " + x.String()))
}
