package main

import "go/types"

// bvType reports whether values of integer type t are bit-vectors in the
// function's arithmetic mode: all integers in `arith bv`; only the unsigned
// ones in `arith mixed` (signed integers — indices, lengths, counters — stay
// mathematical Int with overflow obligations, words are exact bit-vectors).
func (vc *VC) bvType(t types.Type) bool {
	t = vc.resolve(t)
	if isUntypedInt(t) {
		return false
	}
	ii, ok := vc.intInfo(t)
	if !ok {
		return false
	}
	return vc.bv || (vc.mixed && !ii.signed)
}

// hasRefs reports whether values of type t contain references (pointers, slices, maps).
func (vc *VC) hasRefs(t types.Type) bool {
	switch u := vc.under(t).(type) {
	case *types.Pointer, *types.Slice, *types.Map, *types.Chan, *types.Interface:
		return true
	case *types.Struct:
		for i := 0; i < u.NumFields(); i++ {
			if vc.hasRefs(u.Field(i).Type()) {
				return true
			}
		}
	}
	return false
}
