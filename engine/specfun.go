package main

import (
	"fmt"
	"go/types"
	"sort"
	"strings"
)

// heapParams routes heap reads of a recursive spec function body through
// formal parameters, one per heap component the body (transitively) reads.
type heapParams struct {
	comps map[string]string // component -> sort
}

func (hp *heapParams) term(comp, srt string) Term {
	hp.comps[comp] = srt
	return Term{"h!" + comp, srt}
}

func (hp *heapParams) load(sc *SpecCtx, l *Loc) Term {
	vc := sc.vc
	if l.Root == "C" && len(l.Path) == 0 {
		if u, ok := vc.under(l.Ty).(*types.Struct); ok {
			var fs []Term
			for i := 0; i < u.NumFields(); i++ {
				comp, srt := vc.fieldComp(l.Ty, i)
				fs = append(fs, sel(hp.term(comp, srt), l.Ref))
			}
			return vc.mkStruct(l.Ty, fs)
		}
	}
	h := hp.term(l.Comp, l.Sort)
	var base Term
	if l.Root == "E" {
		base = sel(sel(h, l.Ref), l.Idx)
	} else {
		base = sel(h, l.Ref)
	}
	return vc.followPath(base, l.Path)
}

type recSpec struct {
	name  string
	comps []string
	sorts []string
	ret   types.Type
}

func (sc *SpecCtx) applySpecFunc(sf *SpecFunc, args []Val) Val {
	vc := sc.vc
	if len(args) != len(sf.Params) {
		panic(engErr(fmt.Sprintf("spec func %s expects %d arguments", sf.Name, len(sf.Params))))
	}
	psc := *sc
	psc.pkg = vc.eng.pkgTypes(sf.Pkg, sc.pkg)
	if sf.Uninterp {
		// declared only: an uninterpreted function of its arguments (and, like pure
		// functions, of the contents of slice arguments)
		var avs []Val
		for i, p := range sf.Params {
			avs = append(avs, psc.coerce(args[i], psc.lookupType(p.Type)))
		}
		rt := psc.lookupType(sf.Ret)
		heapOf := func(comp, srt string) Term {
			if sc.hp != nil {
				return sc.hp.term(comp, srt)
			}
			return vc.heapGet(sc.st, comp, srt)
		}
		return Val{Ty: rt, T: vc.pureApp("spec."+sf.Name, avs, rt, heapOf)}
	}
	if !sf.Recursive {
		if sc.depth > 40 {
			panic(engErr("spec function expansion too deep: " + sf.Name))
		}
		vars := map[string]Val{}
		for i, p := range sf.Params {
			a := args[i]
			pt := psc.lookupType(p.Type)
			a = psc.coerce(a, pt)
			vars[p.Name] = a
		}
		n := psc
		n.vars = vars
		n.depth = sc.depth + 1
		r := n.eval(sf.Body)
		if sf.Ret != "" {
			rt := psc.lookupType(sf.Ret)
			if !isUntypedInt(rt) || r.T.Sort != SInt {
				r.Ty = rt
			}
		}
		return r
	}
	rs := vc.declareRecSpec(&psc, sf)
	var ts []Term
	for i, p := range sf.Params {
		pt := psc.lookupType(p.Type)
		ts = append(ts, psc.coerce(args[i], pt).T)
	}
	for i, comp := range rs.comps {
		if sc.hp != nil {
			ts = append(ts, sc.hp.term(comp, rs.sorts[i]))
		} else {
			ts = append(ts, vc.heapGet(sc.st, comp, rs.sorts[i]))
		}
	}
	return Val{Ty: rs.ret, T: app(vc.sortOf(rs.ret), rs.name, ts...)}
}

// coerce adapts an argument value to a declared parameter type (literal to BV, nil to slice).
func (sc *SpecCtx) coerce(a Val, pt types.Type) Val {
	vc := sc.vc
	want := vc.sortOf(pt)
	if a.T.Sort == want {
		if a.Ty == nil || isUntypedInt(a.Ty) || a.Ty == types.Typ[types.UntypedNil] {
			a.Ty = pt
		}
		return a
	}
	if isBV(want) && a.T.Sort == SInt {
		if c, ok := constOf(a.T); ok {
			return Val{Ty: pt, T: bvLit(c, bvWidth(want))}
		}
	}
	if want == SSlice && a.Ty == types.Typ[types.UntypedNil] {
		return Val{Ty: pt, T: nilSlice}
	}
	panic(engErr(fmt.Sprintf("spec: argument of sort %s where %s expected", a.T.Sort, want)))
}

func (vc *VC) declareRecSpec(sc *SpecCtx, sf *SpecFunc) *recSpec {
	key := sf.Pkg + "." + sf.Name
	if rs, ok := vc.recSpecs()[key]; ok {
		if rs == nil {
			panic(engErr("mutually recursive spec functions are not supported: " + sf.Name))
		}
		return rs
	}
	vc.recSpecs()[key] = nil
	name := "sf_" + smtQuote(sf.Name)
	rt := sc.lookupType(sf.Ret)
	// pass 1: discover heap components
	hp := &heapParams{comps: map[string]string{}}
	mkCtx := func() *SpecCtx {
		n := *sc
		n.hp = hp
		n.vars = map[string]Val{}
		for _, p := range sf.Params {
			pt := sc.lookupType(p.Type)
			n.vars[p.Name] = Val{Ty: pt, T: Term{"p!" + p.Name, vc.sortOf(pt)}}
		}
		return &n
	}
	// provisional entry so that recursive calls resolve
	prov := &recSpec{name: name, ret: rt}
	vc.recSpecs()[key] = prov
	for iter := 0; iter < 4; iter++ {
		before := len(hp.comps)
		mkCtx().eval(sf.Body)
		prov.comps, prov.sorts = nil, nil
		var cs []string
		for c := range hp.comps {
			cs = append(cs, c)
		}
		sort.Strings(cs)
		for _, c := range cs {
			prov.comps = append(prov.comps, c)
			prov.sorts = append(prov.sorts, hp.comps[c])
		}
		if len(hp.comps) == before && iter > 0 {
			break
		}
	}
	body := mkCtx().eval(sf.Body)
	var ps []string
	for _, p := range sf.Params {
		pt := sc.lookupType(p.Type)
		ps = append(ps, fmt.Sprintf("(p!%s %s)", p.Name, vc.sortOf(pt)))
	}
	for i, c := range prov.comps {
		ps = append(ps, fmt.Sprintf("(h!%s %s)", c, prov.sorts[i]))
	}
	def := fmt.Sprintf("(define-fun-rec %s (%s) %s %s)", name, strings.Join(ps, " "), vc.sortOf(rt), body.T.S)
	vc.emit(def)
	// the same symbol without its definition (used by the "norec" proof attempt)
	var srts []string
	for _, p := range sf.Params {
		srts = append(srts, vc.sortOf(sc.lookupType(p.Type)))
	}
	srts = append(srts, prov.sorts...)
	if vc.recDecl == nil {
		vc.recDecl = map[string]string{}
	}
	vc.recDecl[def] = fmt.Sprintf("(declare-fun %s (%s) %s)", name, strings.Join(srts, " "), vc.sortOf(rt))
	return prov
}

func (vc *VC) recSpecs() map[string]*recSpec {
	if vc.recSpecMap == nil {
		vc.recSpecMap = map[string]*recSpec{}
	}
	return vc.recSpecMap
}

// pureCall evaluates, inside a contract expression, a call of a Go function or
// method whose contract is marked `pure`: the same uninterpreted function that
// replaces the call in code.
func (sc *SpecCtx) pureCall(x *SX, fn *SX, args []*SX) (Val, bool) {
	vc := sc.vc
	heapOf := func(comp, srt string) Term {
		if sc.hp != nil {
			return sc.hp.term(comp, srt)
		}
		return vc.heapGet(sc.st, comp, srt)
	}
	var avs []Val
	for _, a := range args {
		avs = append(avs, sc.eval(a))
	}
	if fn.K == "sel" {
		// method call recv.M(args)
		if fn.Args[0].K == "id" {
			if _, isVar := sc.vars[fn.Args[0].Op]; !isVar && sc.findImport(fn.Args[0].Op) != nil {
				// package-qualified function pkg.F(args)
				p := sc.findImport(fn.Args[0].Op)
				key := p.Path() + "." + fn.Op
				c := vc.eng.contracts.Funcs[key]
				if c == nil || !c.Pure {
					return Val{}, false
				}
				f, ok := p.Scope().Lookup(fn.Op).(*types.Func)
				if !ok {
					return Val{}, false
				}
				rt := f.Type().(*types.Signature).Results().At(0).Type()
				return Val{Ty: vc.resolve(rt), T: vc.pureApp(key, avs, rt, heapOf)}, true
			}
		}
		recv := sc.eval(fn.Args[0])
		obj, _, _ := types.LookupFieldOrMethod(vc.resolve(recv.Ty), true, sc.pkg, fn.Op)
		m, ok := obj.(*types.Func)
		if !ok {
			return Val{}, false
		}
		sig := m.Type().(*types.Signature)
		rt := sig.Results().At(0).Type()
		var key string
		if _, isIface := vc.under(recv.Ty).(*types.Interface); isIface {
			key = methodKey(vc.resolve(recv.Ty), fn.Op)
		} else {
			key = methodKey(sig.Recv().Type(), fn.Op)
		}
		c := vc.eng.contracts.Funcs[key]
		if c == nil || !c.Pure {
			return Val{}, false
		}
		for i := range avs {
			if i < sig.Params().Len() {
				avs[i] = sc.coerce(avs[i], sig.Params().At(i).Type())
			}
		}
		all := append([]Val{recv}, avs...)
		return Val{Ty: vc.resolve(rt), T: vc.pureApp(key, all, rt, heapOf)}, true
	}
	if fn.K == "id" && sc.pkg != nil {
		key := sc.pkg.Path() + "." + fn.Op
		c := vc.eng.contracts.Funcs[key]
		if c == nil || !c.Pure {
			return Val{}, false
		}
		f, ok := sc.pkg.Scope().Lookup(fn.Op).(*types.Func)
		if !ok {
			return Val{}, false
		}
		sig := f.Type().(*types.Signature)
		for i := range avs {
			if i < sig.Params().Len() {
				avs[i] = sc.coerce(avs[i], sig.Params().At(i).Type())
			}
		}
		rt := sig.Results().At(0).Type()
		return Val{Ty: vc.resolve(rt), T: vc.pureApp(key, avs, rt, heapOf)}, true
	}
	return Val{}, false
}

// mapIndex: m[k] as in Go — the stored value, or the zero value when k is absent.
func (sc *SpecCtx) mapIndex(base, idx Val, u *types.Map) Val {
	vc := sc.vc
	pcomp, vcomp, vsort, _, _ := vc.mapComps(u)
	h := sc.heapTerm(vcomp, vsort)
	ph := sc.heapTerm(pcomp, vc.compSort[pcomp])
	k := sc.coerce(idx, u.Key())
	present := and(not(eq(base.T, intLit(0))), sel(sel(ph, base.T), k.T))
	return Val{Ty: vc.resolve(u.Elem()), T: ite(present, sel(sel(h, base.T), k.T), vc.zero(u.Elem()))}
}

// heapTerm: the current version of a heap component in this evaluation context.
func (sc *SpecCtx) heapTerm(comp, srt string) Term {
	if sc.hp != nil {
		return sc.hp.term(comp, srt)
	}
	return sc.vc.heapGet(sc.st, comp, srt)
}

func (sc *SpecCtx) mapLen(v Val, u *types.Map) Val {
	vc := sc.vc
	_, _, _, lcomp, lsort := vc.mapComps(u)
	h := vc.heapGet(sc.st, lcomp, lsort)
	if sc.hp != nil {
		h = sc.hp.term(lcomp, lsort)
	}
	return Val{Ty: specInt, T: sel(h, v.T)}
}
