package main

import "os"

// debugLevel: GOCV_DEBUG=1 traces inlining, =2 traces every instruction.
var debugLevel = func() int {
	switch os.Getenv("GOCV_DEBUG") {
	case "":
		return 0
	case "2":
		return 2
	}
	return 1
}()
