package main

import (
	"go/token"

	"golang.org/x/tools/go/ssa"
)

// closureIsNoop reports whether a deferred closure only performs dropped
// operations (mutex unlocks) on values it reaches through loads and field
// addresses — such a defer has no effect in the sequential model.
func closureIsNoop(fn *ssa.Function) bool {
	for _, b := range fn.Blocks {
		for _, in := range b.Instrs {
			switch x := in.(type) {
			case *ssa.DebugRef, *ssa.FieldAddr, *ssa.Return, *ssa.Jump:
			case *ssa.UnOp:
				if x.Op != token.MUL {
					return false
				}
			case *ssa.Call:
				if !isIgnoredCall(&x.Call) {
					return false
				}
			default:
				return false
			}
		}
	}
	return true
}

// markLemmaUsed records that a verified function relied on lemma l, so that the
// check also discharges the lemma's own obligations.
func (e *Engine) markLemmaUsed(l *Lemma) {
	if e.usedLemmas == nil {
		e.usedLemmas = map[*Lemma]bool{}
	}
	e.usedLemmas[l] = true
}

// pow2Term returns pow2(n) for an Int term n; pow2 is an uninterpreted function
// with the recursive characterisation asserted once per VC.
func (vc *VC) pow2Term(n Term) Term {
	if !vc.uf["pow2"] {
		vc.uf["pow2"] = true
		vc.emit("(declare-fun pow2 (Int) Int)")
		vc.emit("(assert (= (pow2 0) 1))")
		vc.emit("(assert (forall ((q_e Int)) (! (=> (> q_e 0) (= (pow2 q_e) (* 2 (pow2 (- q_e 1))))) :pattern ((pow2 q_e)))))")
		vc.emit("(assert (forall ((q_e Int)) (! (=> (>= q_e 0) (> (pow2 q_e) 0)) :pattern ((pow2 q_e)))))")
	}
	return app(SInt, "pow2", n)
}

// nameBV binds a bit-vector term to a fresh constant (declare + equality), unless it
// mentions bound variables.
func (vc *VC) nameBV(prefix string, t Term) Term {
	if hasFreeBound(t.S) {
		return t
	}
	c := vc.fresh(prefix, t.Sort)
	vc.emit("(assert (= " + c.S + " " + t.S + "))")
	return c
}

