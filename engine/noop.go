package main

import (
	"go/token"

	"golang.org/x/tools/go/ssa"
)

// closureIsNoop reports whether a deferred closure only performs dropped
// operations (mutex unlocks) on values it reaches through loads and field
// addresses — such a defer has no effect in the sequential model.
func closureIsNoop(fn *ssa.Function) bool {
	for _, b := range fn.Blocks {
		for _, in := range b.Instrs {
			switch x := in.(type) {
			case *ssa.DebugRef, *ssa.FieldAddr, *ssa.Return, *ssa.Jump:
			case *ssa.UnOp:
				if x.Op != token.MUL {
					return false
				}
			case *ssa.Call:
				if !isIgnoredCall(&x.Call) {
					return false
				}
			default:
				return false
			}
		}
	}
	return true
}

// markLemmaUsed records that a verified function relied on lemma l, so that the
// check also discharges the lemma's own obligations.
func (e *Engine) markLemmaUsed(l *Lemma) {
	if e.usedLemmas == nil {
		e.usedLemmas = map[*Lemma]bool{}
	}
	e.usedLemmas[l] = true
}
