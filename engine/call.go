package main

import (
	"fmt"
	"go/token"
	"go/types"
	"os"
	"strings"

	"golang.org/x/tools/go/ssa"
)

const repoModule = "github.com/gnolang/gno"

func (fx *fexec) call(x *ssa.Call, st *State) Val {
	cc := &x.Call
	vc := fx.vc
	pos := fx.posOf(x)
	if cc.IsInvoke() {
		return fx.invoke(x, st)
	}
	var args []Val
	for _, a := range cc.Args {
		args = append(args, fx.val(a))
	}
	switch callee := cc.Value.(type) {
	case *ssa.Builtin:
		return fx.builtin(x, callee, args, st)
	case *ssa.Function:
		return fx.staticCall(x, callee, args, nil, st, pos)
	case *ssa.MakeClosure:
		cv := fx.val(callee)
		return fx.staticCall(x, cv.Fn, args, cv.Bind, st, pos)
	default:
		// a call through a package-level function variable that only its package's
		// initialiser ever assigns (var NewGasMeter = types.NewGasMeter): a static call
		if u, isLoad := cc.Value.(*ssa.UnOp); isLoad && u.Op == token.MUL {
			if g, isG := u.X.(*ssa.Global); isG {
				if gi := vc.eng.globalInfo(g); gi.initOnly && gi.initFn != nil {
					vc.note("package variable " + g.Pkg.Pkg.Name() + "." + g.Name() + " holds a function and is written only by the package initialiser (checked on the SSA): calls through it are static")
					return fx.staticCall(x, gi.initFn, args, nil, st, pos)
				}
			}
		}
		cv := fx.val(cc.Value)
		if cv.Fn != nil {
			return fx.staticCall(x, cv.Fn, args, cv.Bind, st, pos)
		}
	}
	vc.note("dynamic call " + cc.String() + " modelled as opaque (fresh result, heap unchanged)")
	return vc.freshResult(st, x.Type(), x.Name())
}

func (vc *VC) freshResult(st *State, t types.Type, name string) Val {
	t = vc.resolve(t)
	if tup, ok := t.(*types.Tuple); ok {
		out := Val{Ty: t}
		for i := 0; i < tup.Len(); i++ {
			out.Tup = append(out.Tup, vc.freshResult(st, tup.At(i).Type(), fmt.Sprintf("%s_%d", name, i)))
		}
		if tup.Len() == 0 {
			return Val{Ty: t}
		}
		return out
	}
	v := Val{Ty: t, T: vc.fresh(name, vc.sortOf(t))}
	vc.assert(vc.typeInv(v.T, t, st.alloc))
	return v
}

func (fx *fexec) calleeSubst(f *ssa.Function) func() {
	vc := fx.vc
	saved := vc.subst
	o := f.Origin()
	if o == nil || len(f.TypeArgs()) == 0 {
		return func() {}
	}
	ns := map[string]types.Type{}
	for k, v := range saved {
		ns[k] = v
	}
	tps := o.Signature.TypeParams()
	if tps == nil && o.Signature.Recv() != nil {
		tps = o.Signature.RecvTypeParams()
	}
	for i := 0; tps != nil && i < tps.Len() && i < len(f.TypeArgs()); i++ {
		ns[tps.At(i).Obj().Name()] = vc.resolve(f.TypeArgs()[i])
	}
	vc.subst = ns
	return func() { vc.subst = saved }
}

func (fx *fexec) staticCall(x *ssa.Call, f *ssa.Function, args []Val, bind []Val, st *State, pos string) Val {
	vc := fx.vc
	key := funcKey(f)
	if ignoredFuncs[key] {
		return Val{Ty: x.Type()}
	}
	if r, ok := fx.externModel(key, x, f, args, st, pos); ok {
		return r
	}
	c := vc.eng.contracts.Funcs[key]
	body := f
	if o := f.Origin(); o != nil {
		body = o
	}
	if c != nil && c.Pure {
		// opaque at call sites: only "same arguments, same result" is known
		rt := vc.resolve(x.Type())
		heapOf := func(comp, srt string) Term { return vc.heapGet(st, comp, srt) }
		for i, r := range c.Requires {
			sc := &SpecCtx{vc: vc, vars: paramVars(body, args), st: st, old: st, pkg: body.Pkg.Pkg}
			o := vc.oblige(st, "pre@call", fmt.Sprintf("%s requires #%d: %s", c.Name, i+1, r.Src), sc.evalBool(r.X))
			o.Pos = pos
		}
		var v Val
		if tup, isTup := rt.(*types.Tuple); isTup && tup.Len() > 1 {
			// several results: one uninterpreted function per result (key#i)
			v = Val{Ty: rt}
			for i := 0; i < tup.Len(); i++ {
				et := vc.resolve(tup.At(i).Type())
				ct := Val{Ty: et, T: vc.define(fmt.Sprintf("%s_%d", x.Name(), i), vc.pureApp(fmt.Sprintf("%s$%d", key, i), args, et, heapOf))}
				vc.assert(vc.typeInv(ct.T, et, st.alloc))
				v.Tup = append(v.Tup, ct)
			}
		} else {
			v = Val{Ty: rt, T: vc.define(x.Name(), vc.pureApp(key, args, rt, heapOf))}
			vc.assert(vc.typeInv(v.T, rt, st.alloc))
		}
		if c.PanicsIff != nil {
			sc := &SpecCtx{vc: vc, vars: paramVars(body, args), st: st, old: st, pkg: body.Pkg.Pkg}
			fx.panicPoint(st, sc.evalBool(c.PanicsIff.X), "callpanic", c.Name+" panics iff "+c.PanicsIff.Src, pos)
		}
		// the (verified) postconditions also hold of the uninterpreted result
		post := &SpecCtx{vc: vc, vars: paramVars(body, args), st: st, old: st, pkg: body.Pkg.Pkg, base: st.alloc}
		for i, ns := range resultNames(body.Signature) {
			for _, n := range ns {
				if len(v.Tup) > 0 {
					post.vars[n] = v.Tup[i]
				} else {
					post.vars[n] = v
				}
			}
		}
		for _, e := range c.Ensures {
			vc.assume(st, post.evalBool(e.X))
		}
		return v
	}
	if c != nil && !c.Inline {
		restore := fx.calleeSubst(f)
		defer restore()
		return fx.applyContract(c, body, args, st, pos, x.Name())
	}
	inRepo := inRepoPath(key)
	if len(body.Blocks) > 0 && (inRepo || (c != nil && c.Inline)) && fx.depth < 8 && !fx.onStack(body) {
		restore := fx.calleeSubst(f)
		defer restore()
		return fx.inlineCall(body, args, bind, st, x.Type())
	}
	vc.note("call to " + key + " modelled as opaque (fresh result, heap unchanged)")
	return vc.freshResult(st, x.Type(), x.Name())
}

func (fx *fexec) onStack(f *ssa.Function) bool {
	for p := fx; p != nil; p = p.parent {
		if p.fn == f {
			return true
		}
	}
	return false
}

func (fx *fexec) inlineCall(f *ssa.Function, args []Val, bind []Val, st *State, rt types.Type) Val {
	vc := fx.vc
	if os.Getenv("GOCV_DEBUG") != "" {
		fmt.Fprintf(os.Stderr, "%sinline %s (script %d lines)\n", strings.Repeat("  ", fx.depth), funcKey(f), len(vc.script))
	}
	sub := vc.newExec(f, vc.eng.contracts.Funcs[funcKey(f)], fx.depth+1)
	sub.parent = fx
	for i, fv := range f.FreeVars {
		sub.env[fv] = bind[i]
	}
	exit, res := sub.run(st, args)
	// continue in the caller with the callee's exit state
	st.reach = exit.reach
	st.heap = exit.heap
	st.alloc = exit.alloc
	switch len(res) {
	case 0:
		return Val{Ty: rt}
	case 1:
		return res[0]
	}
	return Val{Ty: rt, Tup: res}
}

// resultNames returns the names by which results can be referred to in contracts.
func resultNames(sig *types.Signature) [][]string {
	var out [][]string
	for i := 0; i < sig.Results().Len(); i++ {
		ns := []string{fmt.Sprintf("r%d", i)}
		if n := sig.Results().At(i).Name(); n != "" && n != "_" {
			ns = append(ns, n)
		}
		out = append(out, ns)
	}
	return out
}

func paramVars(f *ssa.Function, args []Val) map[string]Val {
	vars := map[string]Val{}
	for i, p := range f.Params {
		if i < len(args) {
			vars[p.Name()] = args[i]
		}
	}
	return vars
}

// applyContract replaces a call by the callee's contract.
func (fx *fexec) applyContract(c *Contract, f *ssa.Function, args []Val, st *State, pos, name string) Val {
	return fx.applyContractSig(c, f.Signature, paramVars(f, args), f.Pkg.Pkg, st, pos, name)
}

// applyContractSig applies a contract given the callee's signature and argument bindings
// (used for static callees and for interface methods, which have no body).
func (fx *fexec) applyContractSig(c *Contract, sig *types.Signature, vars map[string]Val, pkg *types.Package, st *State, pos, name string) Val {
	vc := fx.vc
	pre := st.clone()
	sc := &SpecCtx{vc: vc, vars: vars, st: pre, old: pre, pkg: pkg}
	// `int` and `mixed` agree on signed integers (mathematical) and differ only in the
	// sort of unsigned ones; a contract is evaluated in the caller's mode, so the two
	// may call each other (a clause the caller's mode cannot express fails loudly).
	if (c.Arith == "bv") != vc.bv {
		panic(engErr("callee " + c.Key() + " uses a different arithmetic mode"))
	}
	for i, r := range c.Requires {
		o := vc.oblige(st, "pre@call", fmt.Sprintf("%s requires #%d: %s", c.Name, i+1, r.Src), sc.evalBool(r.X))
		o.Pos = pos
	}
	if c == vc.contract && c.Decreases != nil && vc.entryVars != nil {
		// recursive call: the termination measure is bounded below and strictly decreases
		esc := &SpecCtx{vc: vc, vars: vc.entryVars, st: vc.entry, old: vc.entry, pkg: pkg}
		m0 := vc.toInt(esc.eval(c.Decreases.X))
		m1 := vc.toInt(sc.eval(c.Decreases.X))
		o := vc.oblige(st, "decreases", "recursive call: measure "+c.Decreases.Src+" is non-negative and strictly smaller", and(ge(m1, intLit(0)), lt(m1, m0)))
		o.Pos = pos
	}
	if c.PanicsIff != nil {
		fx.panicPoint(st, sc.evalBool(c.PanicsIff.X), "callpanic", c.Name+" panics iff "+c.PanicsIff.Src, pos)
	} else if c.MayPanic != nil {
		d := sc.evalBool(c.MayPanic.X)
		ps := st.clone()
		ps.reach = vc.define("maypanic", and(st.reach, d))
		allowed := tFalse
		if vc.panicOK != nil {
			allowed = vc.panicOK(ps)
		}
		o := vc.oblige(ps, "callpanic", c.Name+" may panic only if "+c.MayPanic.Src, allowed)
		o.Pos = pos
	}
	// frame
	for _, a := range c.Assigns {
		fx.havocLocation(sc, a.X, st)
	}
	st.alloc = vc.freshAlloc(st.alloc)
	res := make([]Val, sig.Results().Len())
	post := &SpecCtx{vc: vc, vars: map[string]Val{}, st: st, old: pre, pkg: pkg, base: pre.alloc}
	for k, v := range vars {
		post.vars[k] = v
	}
	for i, ns := range resultNames(sig) {
		res[i] = vc.freshResult(st, sig.Results().At(i).Type(), fmt.Sprintf("%s_r%d", name, i))
		for _, n := range ns {
			post.vars[n] = res[i]
		}
	}
	for _, e := range c.Ensures {
		vc.assume(st, post.evalBool(e.X))
	}
	for _, e := range c.Assumed {
		vc.note("ASSUMED (unproved) postcondition of " + c.Name + ": " + e.Src)
		vc.assume(st, post.evalBool(e.X))
	}
	switch len(res) {
	case 0:
		return Val{Ty: sig.Results()}
	case 1:
		return res[0]
	}
	return Val{Ty: sig.Results(), Tup: res}
}

func (vc *VC) freshAlloc(old Term) Term {
	a := vc.fresh("alloc", SInt)
	vc.assert(ge(a, old))
	return a
}

// havocLocation havocs the heap location(s) named by an assigns clause.
func (fx *fexec) havocLocation(sc *SpecCtx, x *SX, st *State) {
	vc := fx.vc
	switch x.K {
	case "cell":
		// cell(p): the cell a pointer to a non-struct value points to
		l := vc.locOfPtr(sc.eval(x.Args[0]))
		v := vc.fresh("havoc_cell", vc.sortOf(l.Ty))
		vc.assert(vc.typeInv(v, l.Ty, Term{}))
		vc.storeLoc(st, l, v)
	case "allfield":
		// `all T.f`: the whole field component is havocked; the callee's ensures say
		// which objects keep their value
		sty, fi := sc.structField(x)
		comp, srt := vc.fieldComp(sty, fi)
		vc.heapSet(st, comp, vc.fresh("havoc_"+x.Op, srt))
	case "ghost":
		g := vc.eng.contracts.Ghosts[x.Op]
		if g == nil {
			panic(engErr("assigns: unknown ghost variable " + x.Op))
		}
		l := sc.ghostLoc(g)
		v := vc.fresh("havoc_"+x.Op, vc.sortOf(l.Ty))
		vc.assert(vc.typeInv(v, l.Ty, Term{}))
		vc.storeLoc(st, l, v)
	case "sel":
		base := sc.eval(x.Args[0])
		bt := vc.resolve(base.Ty)
		pt, ok := bt.Underlying().(*types.Pointer)
		if !ok {
			panic(engErr("assigns: " + x.String() + " is not a field of a pointer"))
		}
		_, path := lookupFieldAnyPkg(pt.Elem(), x.Op)
		if len(path) != 1 {
			panic(engErr("assigns: unsupported field path " + x.String()))
		}
		l := vc.fieldLoc(base, pt.Elem(), path[0])
		v := vc.fresh("havoc_"+x.Op, vc.sortOf(l.Ty))
		vc.assert(vc.typeInv(v, l.Ty, Term{}))
		vc.storeLoc(st, l, v)
	case "idx":
		// s[*] : all elements of slice s
		if x.Args[1].K == "id" && x.Args[1].Op == "_" || x.Args[1].K == "un" {
		}
		s := sc.eval(x.Args[0])
		if mt, isMap := vc.under(s.Ty).(*types.Map); isMap {
			// m[*]: presence, values and size of map m
			pc, vcmp, vsort, lc, lsort := vc.mapComps(mt)
			for _, c := range [][2]string{{pc, vc.compSort[pc]}, {vcmp, vsort}, {lc, lsort}} {
				h := vc.heapGet(st, c[0], c[1])
				nv := vc.fresh("havoc_map", arrayElemSort(c[1]))
				if c[0] == lc {
					vc.assert(ge(nv, intLit(0)))
				}
				vc.heapSet(st, c[0], store(h, s.T, nv))
			}
			return
		}
		et := vc.under(s.Ty).(*types.Slice).Elem()
		comp, srt := vc.elemComp(et)
		h := vc.heapGet(st, comp, srt)
		na := vc.fresh("havoc_arr", arrayElemSort(srt))
		vc.heapSet(st, comp, store(h, sArr(s.T), na))
	default:
		panic(engErr("assigns: unsupported location " + x.String()))
	}
}

func (fx *fexec) builtin(x *ssa.Call, b *ssa.Builtin, args []Val, st *State) Val {
	vc := fx.vc
	rt := vc.resolve(x.Type())
	switch b.Name() {
	case "len":
		a := args[0]
		if a.View != nil {
			return Val{Ty: rt, T: vc.fromInt(a.View.n, rt)}
		}
		switch u := vc.under(a.Ty).(type) {
		case *types.Slice:
			return Val{Ty: rt, T: vc.fromInt(sLen(a.T), rt)}
		case *types.Array:
			return Val{Ty: rt, T: vc.fromInt(intLit(u.Len()), rt)}
		case *types.Basic:
			if vc.strSMT {
				return Val{Ty: rt, T: vc.fromInt(app(SInt, "str.len", a.T), rt)}
			}
			vc.declUF("str.length", fmt.Sprintf("(%s) Int", vc.sortOf(a.Ty)))
			l := app(SInt, "str.length", a.T)
			vc.assert(le(intLit(0), l))
			vc.assert(eq(eq(l, intLit(0)), eq(a.T, vc.strLit(""))))
			return Val{Ty: rt, T: vc.fromInt(l, rt)}
		case *types.Map:
			_, _, _, lcomp, lsort := vc.mapComps(u)
			return Val{Ty: rt, T: vc.fromInt(sel(vc.heapGet(st, lcomp, lsort), a.T), rt)}
		case *types.Pointer:
			if at, ok := vc.under(u.Elem()).(*types.Array); ok {
				return Val{Ty: rt, T: vc.fromInt(intLit(at.Len()), rt)}
			}
		}
	case "cap":
		a := args[0]
		if _, ok := vc.under(a.Ty).(*types.Slice); ok {
			return Val{Ty: rt, T: vc.fromInt(sCap(a.T), rt)}
		}
	case "append":
		return fx.appendOp(x, args, st)
	case "copy":
		return fx.copyOp(x, args, st)
	case "min", "max":
		r := args[0]
		for _, a := range args[1:] {
			var c Term
			if vc.bvType(rt) {
				ii, _ := vc.intInfo(rt)
				op := "bvsle"
				if !ii.signed {
					op = "bvule"
				}
				c = app(SBool, op, r.T, a.T)
			} else {
				c = le(r.T, a.T)
			}
			if b.Name() == "max" {
				c = not(c)
				r = Val{Ty: rt, T: ite(or(c, eq(r.T, a.T)), r.T, a.T)}
			} else {
				r = Val{Ty: rt, T: ite(c, r.T, a.T)}
			}
		}
		r.T = vc.define(x.Name(), r.T)
		return r
	case "delete":
		fx.mapDelete(args[0], args[1], st)
		return Val{Ty: rt}
	case "print", "println":
		return Val{Ty: rt}
	case "Sizeof":
		// unsafe.Sizeof of an integer-typed operand (after type-parameter substitution)
		if ii, ok := vc.intInfo(vc.resolve(args[0].Ty)); ok {
			return Val{Ty: rt, T: vc.fromInt(intLit(int64(ii.w/8)), rt)}
		}
	case "ssa:wrapnilchk":
		fx.panicPoint(st, eq(args[0].T, intLit(0)), "nil", "nil receiver", fx.posOf(x))
		return args[0]
	}
	panic(engErr("unsupported builtin " + b.Name() + " on " + args[0].Ty.String()))
}

// fromInt converts an Int term to the representation of Go type t.
func (vc *VC) fromInt(t Term, ty types.Type) Term {
	if vc.bvType(ty) {
		if ii, ok := vc.intInfo(ty); ok {
			if c, ok := constOf(t); ok {
				return bvLit(c, ii.w)
			}
			return Term{fmt.Sprintf("((_ int2bv %d) %s)", ii.w, t.S), bvSort(ii.w)}
		}
	}
	return t
}

func (fx *fexec) appendOp(x *ssa.Call, args []Val, st *State) Val {
	vc := fx.vc
	s, t := args[0], args[1]
	rt := vc.resolve(x.Type())
	if _, ok := vc.under(t.Ty).(*types.Slice); !ok {
		panic(engErr("append of a string is outside the subset"))
	}
	et := vc.under(rt).(*types.Slice).Elem()
	comp, srt := vc.elemComp(et)
	n := sLen(t.T)
	h := vc.heapGet(st, comp, srt)
	oldArr := sel(h, sArr(s.T))
	srcArr := sel(h, sArr(t.T))
	newLen := vc.define("applen", add(sLen(s.T), n))
	inPlace := vc.define("appinplace", and(le(newLen, sCap(s.T)), not(eq(sArr(s.T), intLit(0)))))
	base := add(sOff(s.T), sLen(s.T))
	var filled Term
	c, ok := constLen(t.T)
	if !ok {
		c, ok = vc.constLens[t.T.S]
	}
	if ok && c <= 4 {
		n = intLit(c)
		newLen = vc.define("applen", add(sLen(s.T), n))
		inPlace = vc.define("appinplace", and(le(newLen, sCap(s.T)), not(eq(sArr(s.T), intLit(0)))))
		filled = oldArr
		for j := int64(0); j < c; j++ {
			filled = store(filled, add(base, intLit(j)), sel(srcArr, add(sOff(t.T), intLit(j))))
		}
	} else {
		// general case: fresh array constrained by a quantified frame
		fa := vc.fresh("apparr", arrayElemSort(srt))
		vc.ctr["qv"]++
		k := Term{fmt.Sprintf("q_k!%d", vc.ctr["qv"]), SInt}
		inNew := and(le(base, k), lt(k, add(base, n)))
		body := eq(sel(fa, k), ite(inNew, sel(srcArr, add(sOff(t.T), sub(k, base))), sel(oldArr, k)))
		vc.assert(Term{fmt.Sprintf("(forall ((%s Int)) %s)", k.S, body.S), SBool})
		filled = fa
	}
	filled = vc.define("apparr", filled)
	newRef := st.alloc
	st.alloc = vc.define("alloc", add(st.alloc, intLit(1)))
	newCap := vc.fresh("appcap", SInt)
	vc.assert(and(ge(newCap, newLen), le(newCap, bigLit(pow2(48)))))
	// appending nothing to a nil slice yields nil
	emptyNil := and(eq(sArr(s.T), intLit(0)), eq(n, intLit(0)))
	res := ite(inPlace, mkSlice(sArr(s.T), sOff(s.T), newLen, sCap(s.T)),
		ite(emptyNil, nilSlice, mkSlice(newRef, sOff(s.T), newLen, newCap)))
	nh := ite(inPlace, store(h, sArr(s.T), filled), store(h, newRef, filled))
	vc.heapSet(st, comp, nh)
	vc.note("append: a reallocated backing array copies the old array cell-for-cell at the same offsets; cells between len and cap of the new array are not modelled as zero")
	return Val{Ty: rt, T: vc.define(x.Name(), res)}
}

// constLen recognises slices built with a literal length.
func constLen(s Term) (int64, bool) {
	if !strings.HasPrefix(s.S, "(mk-slice ") {
		return 0, false
	}
	f := strings.Fields(strings.TrimSuffix(s.S, ")"))
	if len(f) < 5 {
		return 0, false
	}
	c, ok := constOf(Term{f[len(f)-2], SInt})
	if !ok {
		return 0, false
	}
	return c.Int64(), true
}

func (fx *fexec) copyOp(x *ssa.Call, args []Val, st *State) Val {
	vc := fx.vc
	dst, src := args[0], args[1]
	rt := vc.resolve(x.Type())
	if _, ok := vc.under(src.Ty).(*types.Slice); !ok {
		panic(engErr("copy from a string is outside the subset"))
	}
	et := vc.under(dst.Ty).(*types.Slice).Elem()
	comp, srt := vc.elemComp(et)
	if dst.View != nil || src.View != nil {
		return fx.copyViews(x, dst, src, st)
	}
	h := vc.heapGet(st, comp, srt)
	n := vc.define("copyn", ite(le(sLen(dst.T), sLen(src.T)), sLen(dst.T), sLen(src.T)))
	dArr := sel(h, sArr(dst.T))
	sArr_ := sel(h, sArr(src.T))
	fa := vc.fresh("copyarr", arrayElemSort(srt))
	vc.ctr["qv"]++
	k := Term{fmt.Sprintf("q_k!%d", vc.ctr["qv"]), SInt}
	in := and(le(sOff(dst.T), k), lt(k, add(sOff(dst.T), n)))
	body := eq(sel(fa, k), ite(in, sel(sArr_, add(sOff(src.T), sub(k, sOff(dst.T)))), sel(dArr, k)))
	vc.assert(Term{fmt.Sprintf("(forall ((%s Int)) %s)", k.S, body.S), SBool})
	// copy with n == 0 on a nil dst changes nothing
	vc.heapSet(st, comp, ite(eq(n, intLit(0)), h, store(h, sArr(dst.T), fa)))
	if b, ok := vc.under(et).(*types.Basic); ok && b.Kind() == types.Uint8 {
		// string(b) is a function of the byte sequence only: after copying a whole slice
		// over a slice of the same length, both convert to the same string
		after := vc.pureApp("string.ofbytes", []Val{dst}, types.Typ[types.String], func(c, s string) Term { return vc.heapGet(st, c, s) })
		before := vc.pureApp("string.ofbytes", []Val{src}, types.Typ[types.String], func(c, s string) Term {
			if c == comp {
				return h
			}
			return vc.heapGet(st, c, s)
		})
		vc.assert(implies(eq(sLen(dst.T), sLen(src.T)), eq(after, before)))
	}
	return Val{Ty: rt, T: vc.fromInt(n, rt)}
}

// copyViews is copy where the destination or the source (or both) is a slice of an array
// stored inside another object (a struct field of array type).
func (fx *fexec) copyViews(x *ssa.Call, dst, src Val, st *State) Val {
	vc := fx.vc
	rt := vc.resolve(x.Type())
	et := vc.under(dst.Ty).(*types.Slice).Elem()
	comp, srt := vc.elemComp(et)
	h := vc.heapGet(st, comp, srt)
	lenOf := func(v Val) Term {
		if v.View != nil {
			return v.View.n
		}
		return sLen(v.T)
	}
	n := vc.define("copyn", ite(le(lenOf(dst), lenOf(src)), lenOf(dst), lenOf(src)))
	// the source is read in the state before the copy (copy behaves like memmove)
	var srcAt func(j Term) Term
	if src.View != nil {
		sa := vc.define("copysrc", vc.load(st, src.View.loc))
		srcAt = func(j Term) Term { return sel(sa, add(src.View.lo, j)) }
	} else {
		sa := sel(h, sArr(src.T))
		srcAt = func(j Term) Term { return sel(sa, add(sOff(src.T), j)) }
	}
	vc.ctr["qv"]++
	k := Term{fmt.Sprintf("q_k!%d", vc.ctr["qv"]), SInt}
	if dst.View != nil {
		old := vc.define("copydst", vc.load(st, dst.View.loc))
		fa := vc.fresh("copyarr", old.Sort)
		in := and(le(dst.View.lo, k), lt(k, add(dst.View.lo, n)))
		body := eq(sel(fa, k), ite(in, srcAt(sub(k, dst.View.lo)), sel(old, k)))
		vc.assert(Term{fmt.Sprintf("(forall ((%s Int)) %s)", k.S, body.S), SBool})
		vc.storeLoc(st, dst.View.loc, ite(le(n, intLit(0)), old, fa))
	} else {
		dArr := sel(h, sArr(dst.T))
		fa := vc.fresh("copyarr", arrayElemSort(srt))
		in := and(le(sOff(dst.T), k), lt(k, add(sOff(dst.T), n)))
		body := eq(sel(fa, k), ite(in, srcAt(sub(k, sOff(dst.T))), sel(dArr, k)))
		vc.assert(Term{fmt.Sprintf("(forall ((%s Int)) %s)", k.S, body.S), SBool})
		vc.heapSet(st, comp, ite(eq(n, intLit(0)), h, store(h, sArr(dst.T), fa)))
	}
	return Val{Ty: rt, T: vc.fromInt(n, rt)}
}

// ---------- interfaces ----------

func (vc *VC) typeTag(t types.Type) Term {
	key := typeKey(vc.resolve(t))
	if vc.tags == nil {
		vc.tags = map[string]int{}
	}
	if _, ok := vc.tags[key]; !ok {
		vc.tags[key] = len(vc.tags) + 1
	}
	return intLit(int64(vc.tags[key]))
}

func (vc *VC) boxFns(t types.Type) (box, unbox string) {
	m := mangle(typeKey(vc.resolve(t)))
	s := vc.sortOf(t)
	vc.declUF("typetag", "(Int) Int")
	vc.declUF("box_"+m, fmt.Sprintf("(%s) Int", s))
	vc.declUF("unbox_"+m, fmt.Sprintf("(Int) %s", s))
	return "box_" + m, "unbox_" + m
}

func (fx *fexec) makeInterface(x *ssa.MakeInterface, st *State) Val {
	vc := fx.vc
	v := fx.val(x.X)
	if v.T.S == "" {
		panic(engErr("MakeInterface of non-term value"))
	}
	box, unbox := vc.boxFns(v.Ty)
	b := vc.define(x.Name(), app(SInt, box, v.T))
	vc.assert(and(gt(b, intLit(0)), eq(app(SInt, "typetag", b), vc.typeTag(v.Ty)), eq(app(v.T.Sort, unbox, b), v.T)))
	if vc.boxed == nil {
		vc.boxed = map[string]Val{}
	}
	vc.boxed[b.S] = v // lets extern models (amino.Unmarshal(bz, &x)) see through the interface
	return Val{Ty: vc.resolve(x.Type()), T: b}
}

func (fx *fexec) typeAssert(x *ssa.TypeAssert, st *State) Val {
	vc := fx.vc
	v := fx.val(x.X)
	at := vc.resolve(x.AssertedType)
	var ok Term
	var val Val
	if _, isIface := at.Underlying().(*types.Interface); isIface {
		// whether a dynamic type implements an interface is a function of the type alone
		ok = and(not(eq(v.T, intLit(0))), vc.implementsTerm(v.T, at))
		if _, isI := vc.resolve(x.X.Type()).Underlying().(*types.Interface); isI {
			if ai, isAI := at.Underlying().(*types.Interface); isAI && types.Implements(vc.resolve(x.X.Type()), ai) {
				// the static interface type already has every method asked for: only nil fails
				ok = not(eq(v.T, intLit(0)))
			}
		}
		val = Val{Ty: at, T: v.T}
		vc.note("interface-to-interface assertion: satisfaction is an uninterpreted function of the dynamic type")
	} else {
		_, unbox := vc.boxFns(at)
		ok = and(not(eq(v.T, intLit(0))), eq(app(SInt, "typetag", v.T), vc.typeTag(at)))
		u := vc.define(x.Name(), app(vc.sortOf(at), unbox, v.T))
		vc.assert(vc.typeInv(u, at, st.alloc))
		val = Val{Ty: at, T: u}
	}
	if x.CommaOk {
		okv := Val{Ty: types.Typ[types.Bool], T: vc.define(x.Name()+"_ok", ok)}
		val.T = ite(okv.T, val.T, vc.zero(at))
		return Val{Ty: x.Type(), Tup: []Val{val, okv}}
	}
	fx.panicPoint(st, not(ok), "assert-type", "type assertion to "+typeKey(at), fx.posOf(x))
	return val
}

// implementsTerm: "the dynamic type of interface value v implements interface type at".
func (vc *VC) implementsTerm(v Term, at types.Type) Term {
	vc.declUF("typetag", "(Int) Int")
	fn := "implements_" + mangle(types.TypeString(at.Underlying(), nil))
	vc.declUF(fn, "(Int) Bool")
	return app(SBool, fn, app(SInt, "typetag", v))
}

func (fx *fexec) invoke(x *ssa.Call, st *State) Val {
	vc := fx.vc
	cc := &x.Call
	recv := fx.val(cc.Value)
	var args []Val
	for _, a := range cc.Args {
		args = append(args, fx.val(a))
	}
	it := types.Unalias(vc.resolve(cc.Value.Type()))
	name := ""
	if n, ok := it.(*types.Named); ok && n.Obj().Pkg() != nil {
		name = n.Obj().Pkg().Path() + "." + n.Obj().Name() + "." + cc.Method.Name()
	} else if it.String() == "error" {
		name = "error." + cc.Method.Name()
	}
	fx.panicPoint(st, eq(recv.T, intLit(0)), "nil", "method call on nil interface "+cc.Value.Name(), fx.posOf(x))
	if r, ok := fx.ifaceModel(name, x, recv, args, st); ok {
		return r
	}
	vc.note("interface call " + name + " modelled as opaque (fresh result, heap unchanged)")
	return vc.freshResult(st, x.Type(), x.Name())
}

// ---------- maps ----------

func (vc *VC) mapComps(m *types.Map) (pcomp, vcomp, vsort, lcomp, lsort string) {
	k := mangle(typeKey(vc.resolve(m.Key()))) + "_" + mangle(typeKey(vc.resolve(m.Elem())))
	ks := vc.sortOf(m.Key())
	vs := vc.sortOf(m.Elem())
	pcomp = "MP_" + k
	vcomp = "MV_" + k
	lcomp = "ML_" + k
	vc.compSort[pcomp] = arraySort(SInt, arraySort(ks, SBool))
	vsort = arraySort(SInt, arraySort(ks, vs))
	lsort = arraySort(SInt, SInt)
	return
}

func (fx *fexec) makeMap(x *ssa.MakeMap, st *State) Val {
	vc := fx.vc
	m := vc.under(x.Type()).(*types.Map)
	pcomp, _, _, lcomp, lsort := vc.mapComps(m)
	psort := vc.compSort[pcomp]
	ref := st.alloc
	st.alloc = vc.define("alloc", add(st.alloc, intLit(1)))
	inner := arrayElemSort(psort)
	vc.heapSet(st, pcomp, store(vc.heapGet(st, pcomp, psort), ref, Term{fmt.Sprintf("((as const %s) false)", inner), inner}))
	vc.heapSet(st, lcomp, store(vc.heapGet(st, lcomp, lsort), ref, intLit(0)))
	return Val{Ty: vc.resolve(x.Type()), T: ref}
}

func (fx *fexec) mapUpdate(x *ssa.MapUpdate, st *State) {
	vc := fx.vc
	mv := fx.val(x.Map)
	m := vc.under(mv.Ty).(*types.Map)
	k, v := fx.val(x.Key), fx.val(x.Value)
	pcomp, vcomp, vsort, lcomp, lsort := vc.mapComps(m)
	psort := vc.compSort[pcomp]
	fx.panicPoint(st, eq(mv.T, intLit(0)), "nil", "assignment to entry in nil map", fx.posOf(x))
	ph := vc.heapGet(st, pcomp, psort)
	vh := vc.heapGet(st, vcomp, vsort)
	lh := vc.heapGet(st, lcomp, lsort)
	was := sel(sel(ph, mv.T), k.T)
	vc.heapSet(st, lcomp, store(lh, mv.T, add(sel(lh, mv.T), ite(was, intLit(0), intLit(1)))))
	vc.heapSet(st, pcomp, store(ph, mv.T, store(sel(ph, mv.T), k.T, tTrue)))
	vc.heapSet(st, vcomp, store(vh, mv.T, store(sel(vh, mv.T), k.T, v.T)))
}

func (fx *fexec) mapDelete(mv, k Val, st *State) {
	vc := fx.vc
	m := vc.under(mv.Ty).(*types.Map)
	pcomp, _, _, lcomp, lsort := vc.mapComps(m)
	psort := vc.compSort[pcomp]
	ph := vc.heapGet(st, pcomp, psort)
	lh := vc.heapGet(st, lcomp, lsort)
	was := and(not(eq(mv.T, intLit(0))), sel(sel(ph, mv.T), k.T))
	vc.heapSet(st, lcomp, store(lh, mv.T, sub(sel(lh, mv.T), ite(was, intLit(1), intLit(0)))))
	vc.heapSet(st, pcomp, store(ph, mv.T, store(sel(ph, mv.T), k.T, tFalse)))
}

func (fx *fexec) lookup(x *ssa.Lookup, st *State) Val {
	vc := fx.vc
	mv := fx.val(x.X)
	m, ok := vc.under(mv.Ty).(*types.Map)
	if !ok {
		// string index
		if vc.strSMT {
			idx := fx.asIndex(fx.val(x.Index))
			fx.panicPoint(st, or(lt(idx, intLit(0)), ge(idx, app(SInt, "str.len", mv.T))), "bounds", "string index", fx.posOf(x))
			code := app(SInt, "str.to_code", app("String", "str.at", mv.T, idx))
			return Val{Ty: vc.resolve(x.Type()), T: vc.define(x.Name(), code)}
		}
		panic(engErr("string indexing needs 'strings smt'"))
	}
	k := fx.val(x.Index)
	pcomp, vcomp, vsort, _, _ := vc.mapComps(m)
	psort := vc.compSort[pcomp]
	present := and(not(eq(mv.T, intLit(0))), sel(sel(vc.heapGet(st, pcomp, psort), mv.T), k.T))
	val := ite(present, sel(sel(vc.heapGet(st, vcomp, vsort), mv.T), k.T), vc.zero(m.Elem()))
	v := Val{Ty: vc.resolve(m.Elem()), T: vc.define(x.Name(), val)}
	vc.assert(vc.typeInv(v.T, v.Ty, st.alloc))
	if x.CommaOk {
		return Val{Ty: x.Type(), Tup: []Val{v, {Ty: types.Typ[types.Bool], T: vc.define(x.Name()+"_ok", present)}}}
	}
	return v
}
