package main

import (
	"fmt"
	"go/types"

	"golang.org/x/tools/go/ssa"
)

type globalInfo struct {
	initOnly bool          // stored to only by the package initialiser
	nonNil   bool          // initialised with a value known to be non-nil
	initFn   *ssa.Function // initialised with this function (var F = pkg.G)
}

// globalInfo analyses how a package-level variable is written: a variable that
// only the package initialiser stores to is a constant for every other function.
func (e *Engine) globalInfo(g *ssa.Global) globalInfo {
	if e.ginfo == nil {
		e.ginfo = map[*ssa.Global]globalInfo{}
	}
	if gi, ok := e.ginfo[g]; ok {
		return gi
	}
	gi := globalInfo{initOnly: true}
	var visit func(fn *ssa.Function, isInit bool)
	seen := map[*ssa.Function]bool{}
	visit = func(fn *ssa.Function, isInit bool) {
		if fn == nil || seen[fn] {
			return
		}
		seen[fn] = true
		for _, b := range fn.Blocks {
			for _, in := range b.Instrs {
				switch x := in.(type) {
				case *ssa.Store:
					if x.Addr == g {
						if !isInit {
							gi.initOnly = false
						} else {
							gi.nonNil = knownNonNil(x.Val)
							if f, ok := x.Val.(*ssa.Function); ok {
								gi.initFn = f
							} else {
								gi.initFn = nil
							}
						}
					}
				default:
					// address of the global escaping (passed or stored): treat as mutable
					for _, op := range in.Operands(nil) {
						if *op == g {
							switch in.(type) {
							case *ssa.UnOp, *ssa.DebugRef:
							default:
								if !isInit {
									gi.initOnly = false
								}
							}
						}
					}
				}
			}
		}
		for _, af := range fn.AnonFuncs {
			visit(af, isInit)
		}
	}
	pkg := g.Pkg
	if g.Object() != nil && g.Object().Exported() {
		// an exported variable may be assigned from any package: look at all of them
		for _, op := range e.prog.AllPackages() {
			if op == pkg {
				continue
			}
			for _, m := range op.Members {
				switch m := m.(type) {
				case *ssa.Function:
					visit(m, false)
				case *ssa.Type:
					for _, t := range []types.Type{m.Type(), types.NewPointer(m.Type())} {
						ms := e.prog.MethodSets.MethodSet(t)
						for i := 0; i < ms.Len(); i++ {
							visit(e.prog.MethodValue(ms.At(i)), false)
						}
					}
				}
			}
		}
	}
	for _, m := range pkg.Members {
		switch m := m.(type) {
		case *ssa.Function:
			visit(m, m.Name() == "init")
		case *ssa.Type:
			for _, t := range []types.Type{m.Type(), types.NewPointer(m.Type())} {
				ms := e.prog.MethodSets.MethodSet(t)
				for i := 0; i < ms.Len(); i++ {
					visit(e.prog.MethodValue(ms.At(i)), false)
				}
			}
		}
	}
	e.ginfo[g] = gi
	return gi
}

func knownNonNil(v ssa.Value) bool {
	switch x := v.(type) {
	case *ssa.MakeInterface, *ssa.Alloc, *ssa.MakeMap, *ssa.MakeSlice, *ssa.MakeClosure:
		return true
	case *ssa.Call:
		if f := x.Call.StaticCallee(); f != nil {
			switch funcKey(f) {
			case "errors.New", "fmt.Errorf", repoModule + "/tm2/pkg/errors.New", repoModule + "/tm2/pkg/errors.Wrap":
				return true
			}
		}
	}
	return false
}

// loadGlobal returns the value of an init-only global as a constant.
func (fx *fexec) loadGlobal(g *ssa.Global) (Val, bool) {
	vc := fx.vc
	gi := vc.eng.globalInfo(g)
	if !gi.initOnly {
		return Val{}, false
	}
	t := vc.resolve(g.Type().(*types.Pointer).Elem())
	switch t.Underlying().(type) {
	case *types.Interface, *types.Pointer, *types.Basic:
	default:
		return Val{}, false
	}
	name := "GV_" + smtQuote(g.Pkg.Pkg.Name()+"."+g.Name())
	v := Term{name, vc.sortOf(t)}
	if !vc.uf[name] {
		vc.uf[name] = true
		vc.emit(fmt.Sprintf("(declare-const %s %s)", name, v.Sort))
		vc.assert(vc.typeInv(v, t, vc.alloc0))
		if gi.nonNil {
			vc.assert(gt(v, intLit(0)))
		}
		vc.note("package variable " + g.Pkg.Pkg.Name() + "." + g.Name() + " is written only by the package initialiser (checked on the SSA): treated as a constant")
	}
	return Val{Ty: t, T: v}, true
}
