package main

import (
	"fmt"
	"go/types"
	"math/big"
	"strings"
)

// The SMT-LIB FloatingPoint theory as the oracle for the softfloat contracts (C05).
// Spec-side only: the code under contract works on integer bit patterns; these builtins
// reinterpret bit-vectors as IEEE-754 values and express the IEEE operations.

const (
	fp64Sort = "(_ FloatingPoint 11 53)"
	fp32Sort = "(_ FloatingPoint 8 24)"
)

func fpWidths(sort string) (eb, sb int) {
	if sort == fp32Sort {
		return 8, 24
	}
	return 11, 53
}

func fpGoType(sort string) types.Type {
	if sort == fp32Sort {
		return types.Typ[types.Float32]
	}
	return types.Typ[types.Float64]
}

func (sc *SpecCtx) fpCall(x *SX, name string, args []*SX) Val {
	vc := sc.vc
	need := func(n int) {
		if len(args) != n {
			sc.fail(x, fmt.Sprintf("%s expects %d arguments", name, n))
		}
	}
	bvArg := func(i int, w int) Term {
		v := sc.eval(args[i])
		if c, ok := constOf(v.T); ok && v.T.Sort == SInt {
			return bvLit(c, w) // an integer literal denotes the bit pattern
		}
		if v.T.Sort != bvSort(w) {
			sc.fail(x, fmt.Sprintf("%s: argument %d must be a %d-bit vector (arith bv), got %s", name, i+1, w, v.T.Sort))
		}
		return v.T
	}
	fpArg := func(i int) Term {
		v := sc.eval(args[i])
		if v.T.Sort != fp64Sort && v.T.Sort != fp32Sort {
			sc.fail(x, name+": floating-point argument expected, got "+v.T.Sort)
		}
		return v.T
	}
	mk := func(sort string, s string) Val { return Val{Ty: fpGoType(sort), T: Term{s, sort}} }
	b := func(s string) Val { return Val{Ty: specBool, T: Term{s, SBool}} }
	switch name {
	case "f64":
		need(1)
		return mk(fp64Sort, "((_ to_fp 11 53) "+bvArg(0, 64).S+")")
	case "f32":
		need(1)
		return mk(fp32Sort, "((_ to_fp 8 24) "+bvArg(0, 32).S+")")
	case "fp.add", "fp.sub", "fp.mul", "fp.div":
		need(2)
		a, c := fpArg(0), fpArg(1)
		return mk(a.Sort, "("+name+" RNE "+a.S+" "+c.S+")")
	case "fp.neg", "fp.abs":
		need(1)
		a := fpArg(0)
		return mk(a.Sort, "("+name+" "+a.S+")")
	case "fp.trunc":
		need(1)
		a := fpArg(0)
		return mk(a.Sort, "(fp.roundToIntegral RTZ "+a.S+")")
	case "fp.lt", "fp.leq", "fp.gt", "fp.geq", "fp.eq":
		need(2)
		a, c := fpArg(0), fpArg(1)
		return b("(" + name + " " + a.S + " " + c.S + ")")
	case "fp.same":
		need(2)
		a, c := fpArg(0), fpArg(1)
		return b("(= " + a.S + " " + c.S + ")")
	case "fp.isNaN", "fp.isInfinite", "fp.isZero", "fp.isNegative", "fp.isPositive", "fp.isSubnormal", "fp.isNormal":
		need(1)
		return b("(" + name + " " + fpArg(0).S + ")")
	case "fp.is":
		// fp.is(r, a): the bit pattern r represents a (the canonical quiet NaN for a NaN)
		need(2)
		a := fpArg(1)
		eb, sb := fpWidths(a.Sort)
		w := eb + sb
		r := bvArg(0, w)
		nan := new(big.Int).Lsh(big.NewInt(1), uint(eb)) // exponent all ones ...
		nan.Sub(nan, big.NewInt(1))
		nan.Lsh(nan, uint(sb-1))
		nan.Add(nan, new(big.Int).Lsh(big.NewInt(1), uint(sb-2))) // ... plus the quiet bit
		return b(fmt.Sprintf("(ite (fp.isNaN %s) (= %s %s) (= ((_ to_fp %d %d) %s) %s))", a.S, r.S, bvLit(nan, w).S, eb, sb, r.S, a.S))
	case "fp.to64":
		need(1)
		return mk(fp64Sort, "((_ to_fp 11 53) RNE "+fpArg(0).S+")")
	case "fp.to32":
		need(1)
		return mk(fp32Sort, "((_ to_fp 8 24) RNE "+fpArg(0).S+")")
	case "fp.fromInt64", "fp.fromInt32", "fp.fromUint64", "fp.fromUint32":
		// fp.fromInt64(x, 64|32): the signed/unsigned integer x rounded (RNE) to binary64/binary32
		need(2)
		w := 64
		if strings.HasSuffix(name, "32") {
			w = 32
		}
		xv := bvArg(0, w)
		tw, ok := constOf(sc.eval(args[1]).T)
		if !ok || (tw.Int64() != 64 && tw.Int64() != 32) {
			sc.fail(x, name+": target width must be 64 or 32")
		}
		sort, eb, sb := fp64Sort, 11, 53
		if tw.Int64() == 32 {
			sort, eb, sb = fp32Sort, 8, 24
		}
		op := "to_fp"
		if strings.Contains(name, "Uint") {
			op = "to_fp_unsigned"
		}
		return mk(sort, fmt.Sprintf("((_ %s %d %d) RNE %s)", op, eb, sb, xv.S))
	case "fp.toSbv", "fp.toUbv":
		// fp.toSbv(a, w): a truncated toward zero as a w-bit signed/unsigned integer
		need(2)
		a := fpArg(0)
		tw, ok := constOf(sc.eval(args[1]).T)
		if !ok {
			sc.fail(x, name+": constant width expected")
		}
		w := int(tw.Int64())
		op := "fp.to_sbv"
		if name == "fp.toUbv" {
			op = "fp.to_ubv"
		}
		ty := types.Typ[types.Int64]
		switch {
		case w == 32 && name == "fp.toSbv":
			ty = types.Typ[types.Int32]
		case w == 64 && name == "fp.toUbv":
			ty = types.Typ[types.Uint64]
		case w == 32:
			ty = types.Typ[types.Uint32]
		}
		return Val{Ty: ty, T: Term{fmt.Sprintf("((_ %s %d) RTZ %s)", op, w, a.S), bvSort(w)}}
	}
	_ = vc
	sc.fail(x, "unknown floating-point builtin "+name)
	return Val{}
}
