package main

import (
	"fmt"
	"go/token"
	"go/types"
	"math/big"
)

// bvBinop gives Go's exact machine semantics to integer operators in `arith bv` mode.
func (vc *VC) bvBinop(fx *fexec, st *State, op token.Token, a, b Val, rt types.Type, ii intInfo, pos, name string) Val {
	srt := a.T.Sort
	if !isBV(srt) {
		srt = b.T.Sort
	}
	mk := func(t Term) Val { return Val{Ty: rt, T: vc.define(name, t)} }
	cmp := func(sop, uop string) Val {
		if ii.signed {
			return Val{Ty: rt, T: app(SBool, sop, a.T, b.T)}
		}
		t := app(SBool, uop, a.T, b.T)
		if vc.bridged[a.T.S] || vc.bridged[b.T.S] {
			// one side came from an integer (e.g. uint64(len(s))): state the comparison
			// over the integers as well — true by the semantics of bv2nat
			iop := map[string]string{"bvult": "<", "bvule": "<=", "bvugt": ">", "bvuge": ">="}[uop]
			vc.assert(eq(t, app(SBool, iop, app(SInt, "bv2nat", a.T), app(SInt, "bv2nat", b.T))))
		}
		return Val{Ty: rt, T: t}
	}
	zero := bvLit(big.NewInt(0), ii.w)
	switch op {
	case token.ADD:
		return mk(app(srt, "bvadd", a.T, b.T))
	case token.SUB:
		return mk(app(srt, "bvsub", a.T, b.T))
	case token.MUL:
		return mk(app(srt, "bvmul", a.T, b.T))
	case token.QUO:
		fx.panicPoint(st, eq(b.T, zero), "div0", "division by zero", pos)
		if ii.signed {
			return mk(app(srt, "bvsdiv", a.T, b.T))
		}
		return mk(app(srt, "bvudiv", a.T, b.T))
	case token.REM:
		fx.panicPoint(st, eq(b.T, zero), "div0", "modulo by zero", pos)
		if ii.signed {
			return mk(app(srt, "bvsrem", a.T, b.T))
		}
		return mk(app(srt, "bvurem", a.T, b.T))
	case token.AND:
		return mk(app(srt, "bvand", a.T, b.T))
	case token.OR:
		return mk(app(srt, "bvor", a.T, b.T))
	case token.XOR:
		return mk(app(srt, "bvxor", a.T, b.T))
	case token.AND_NOT:
		return mk(app(srt, "bvand", a.T, app(srt, "bvnot", b.T)))
	case token.LSS:
		return cmp("bvslt", "bvult")
	case token.LEQ:
		return cmp("bvsle", "bvule")
	case token.GTR:
		return cmp("bvsgt", "bvugt")
	case token.GEQ:
		return cmp("bvsge", "bvuge")
	case token.SHL, token.SHR:
		// shift count: any integer type; negative signed count panics
		var cnt Term
		if isBV(b.T.Sort) {
			bi, _ := vc.intInfo(b.Ty)
			if isUntypedInt(vc.resolve(b.Ty)) {
				bi = intInfo{bvWidth(b.T.Sort), false}
			}
			if bi.signed {
				fx.panicPoint(st, app(SBool, "bvslt", b.T, bvLit(big.NewInt(0), bi.w)), "shift", "negative shift count", pos)
			}
			cnt = b.T
			bw := bvWidth(b.T.Sort)
			switch {
			case bw < ii.w:
				cnt = Term{fmt.Sprintf("((_ zero_extend %d) %s)", ii.w-bw, cnt.S), bvSort(ii.w)}
			case bw > ii.w:
				big_ := app(SBool, "bvuge", b.T, bvLit(big.NewInt(int64(ii.w)), bw))
				low := Term{fmt.Sprintf("((_ extract %d 0) %s)", ii.w-1, b.T.S), bvSort(ii.w)}
				cnt = ite(big_, bvLit(big.NewInt(int64(ii.w)), ii.w), low)
			}
		} else {
			c, ok := constOf(b.T)
			if !ok {
				// mathematical shift count (signed int in `arith mixed`)
				fx.panicPoint(st, lt(b.T, intLit(0)), "shift", "negative shift count", pos)
				w := intLit(int64(ii.w))
				cnt = ite(ge(b.T, w), bvLit(big.NewInt(int64(ii.w)), ii.w),
					Term{fmt.Sprintf("((_ int2bv %d) %s)", ii.w, b.T.S), bvSort(ii.w)})
				if op == token.SHL {
					return mk(app(srt, "bvshl", a.T, cnt))
				}
				if ii.signed {
					return mk(app(srt, "bvashr", a.T, cnt))
				}
				return mk(app(srt, "bvlshr", a.T, cnt))
			}
			if c.Sign() < 0 {
				fx.panicPoint(st, tTrue, "shift", "negative shift count", pos)
				return mk(zero)
			}
			if c.Cmp(big.NewInt(int64(ii.w))) > 0 {
				c = big.NewInt(int64(ii.w))
			}
			cnt = bvLit(c, ii.w)
		}
		if op == token.SHL {
			return mk(app(srt, "bvshl", a.T, cnt))
		}
		if ii.signed {
			return mk(app(srt, "bvashr", a.T, cnt))
		}
		return mk(app(srt, "bvlshr", a.T, cnt))
	}
	panic(engErr(fmt.Sprintf("unsupported bit-vector op %s at %s", op, pos)))
}
