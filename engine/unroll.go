package main

import (
	"fmt"

	"golang.org/x/tools/go/ssa"
)

// Loop unrolling for loops whose trip count is bounded by an operand width
// (`loop k unroll N`): the body is executed up to N times in passive form, the states
// of the edges leaving the loop are merged over the iterations, and an `unwind`
// obligation requires that the back edge is unreachable after the N-th iteration.
// When that obligation is discharged the treatment is complete (not a bounded check).

type unrollEdge struct {
	from, to *ssa.BasicBlock
	st       *State
	env      map[ssa.Value]Val
}

type unrollState struct {
	li    *loopInfo
	backs []unrollEdge
	exits []unrollEdge
}

// snapshotEnv copies the current values of everything defined inside the loop.
func (fx *fexec) snapshotEnv(li *loopInfo) map[ssa.Value]Val {
	m := map[ssa.Value]Val{}
	for b := range li.body {
		for _, in := range b.Instrs {
			if v, ok := in.(ssa.Value); ok {
				if val, have := fx.env[v]; have {
					m[v] = val
				}
			}
		}
	}
	return m
}

func (fx *fexec) unrollLoop(li *loopInfo, n int, cur *State, order []*ssa.BasicBlock, done map[*ssa.BasicBlock]bool) {
	vc := fx.vc
	h := li.header
	if fx.unrolling != nil {
		panic(engErr("nested unrolled loops are outside the subset"))
	}
	var body []*ssa.BasicBlock
	for _, b := range order {
		if li.body[b] {
			body = append(body, b)
			done[b] = true
		}
	}
	// header phis on entry: values of the forward edges
	var phis []*ssa.Phi
	for _, in := range h.Instrs {
		phi, ok := in.(*ssa.Phi)
		if !ok {
			break
		}
		phis = append(phis, phi)
	}
	for _, phi := range phis {
		var res *Val
		for i := len(h.Preds) - 1; i >= 0; i-- {
			p := h.Preds[i]
			if h.Dominates(p) {
				continue
			}
			s, ok := fx.edgeSt[fx.edgeKey(p, h)]
			if !ok || s.reach.IsFalse() {
				continue
			}
			v := fx.val(phi.Edges[i])
			if res == nil {
				res = &v
			} else {
				m := vc.iteVal(s.reach, v, *res)
				res = &m
			}
		}
		if res == nil {
			continue
		}
		res.Ty = vc.resolve(phi.Type())
		if res.T.S != "" {
			res.T = vc.define(phi.Name(), res.T)
		}
		fx.env[phi] = *res
	}
	u := &unrollState{li: li}
	fx.unrolling = u
	defer func() { fx.unrolling = nil }()
	var allExits []unrollEdge
	hst := cur
	for it := 0; it <= n; it++ {
		// forget the edges of the previous iteration inside the body
		for _, b := range body {
			for _, s := range b.Succs {
				delete(fx.edgeSt, fx.edgeKey(b, s))
			}
		}
		u.backs, u.exits = nil, nil
		for k, b := range body {
			var st *State
			if k == 0 {
				st = hst.clone()
			} else {
				st = fx.mergeIncoming(b)
				if st == nil {
					continue
				}
				if inner := fx.loops[b]; inner != nil {
					st = fx.enterLoop(inner, st)
				} else {
					fx.evalPhis(b, nil)
				}
			}
			fx.execBlock(b, st)
		}
		allExits = append(allExits, u.exits...)
		var live []unrollEdge
		for _, be := range u.backs {
			if !be.st.reach.IsFalse() {
				live = append(live, be)
			}
		}
		if len(live) == 0 {
			break
		}
		if it == n {
			// after n full iterations the body must not be entered again: every back
			// edge of this last (header-only in the intended case) pass is unreachable
			for _, be := range live {
				o := vc.oblige(be.st, "unwind", fmt.Sprintf("loop %d runs its body at most %d times (unwinding assertion)", li.ordinal, n), tFalse)
				o.Pos = fmt.Sprintf("loop %d", li.ordinal)
			}
			break
		}
		// next header state and phi values (evaluated in this iteration's environment)
		var ins []*State
		for _, be := range live {
			ins = append(ins, be.st)
		}
		next := map[*ssa.Phi]Val{}
		for _, phi := range phis {
			var res *Val
			for i := len(live) - 1; i >= 0; i-- {
				be := live[i]
				idx := -1
				for pi, p := range h.Preds {
					if p == be.from {
						idx = pi
					}
				}
				v := fx.val(phi.Edges[idx])
				if res == nil {
					res = &v
				} else {
					m := vc.iteVal(be.st.reach, v, *res)
					res = &m
				}
			}
			res.Ty = vc.resolve(phi.Type())
			if res.T.S != "" {
				res.T = vc.define(phi.Name(), res.T)
			}
			next[phi] = *res
		}
		for phi, v := range next {
			fx.env[phi] = v
		}
		hst = vc.mergeStates(ins, fmt.Sprintf("unroll%d_%d", li.ordinal, it+1))
	}
	// leaving edges: merged over the iterations
	byEdge := map[[2]int][]*State{}
	var keys [][2]int
	edgeBlocks := map[[2]int][2]*ssa.BasicBlock{}
	for _, e := range allExits {
		if e.st.reach.IsFalse() {
			continue
		}
		k := fx.edgeKey(e.from, e.to)
		if _, ok := byEdge[k]; !ok {
			keys = append(keys, k)
			edgeBlocks[k] = [2]*ssa.BasicBlock{e.from, e.to}
		}
		byEdge[k] = append(byEdge[k], e.st)
	}
	for _, k := range keys {
		fx.setEdge(edgeBlocks[k][0], edgeBlocks[k][1], vc.mergeStates(byEdge[k], fmt.Sprintf("exit%d", li.ordinal)))
	}
	// values defined in the loop and used after it: the value of the iteration that left
	for b := range li.body {
		for _, in := range b.Instrs {
			v, ok := in.(ssa.Value)
			if !ok || v.Referrers() == nil {
				continue
			}
			liveOut := false
			for _, r := range *v.Referrers() {
				if !li.body[r.Block()] {
					liveOut = true
				}
			}
			if !liveOut {
				continue
			}
			var res *Val
			for i := len(allExits) - 1; i >= 0; i-- {
				e := allExits[i]
				if e.st.reach.IsFalse() {
					continue
				}
				ev, have := e.env[v]
				if !have {
					continue
				}
				if res == nil {
					c := ev
					res = &c
				} else {
					m := vc.iteVal(e.st.reach, ev, *res)
					res = &m
				}
			}
			if res != nil {
				if res.T.S != "" {
					res.T = vc.define(v.Name()+"_out", res.T)
				}
				fx.env[v] = *res
			}
		}
	}
}
