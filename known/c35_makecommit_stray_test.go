package types

import (
	"testing"

	"github.com/gnolang/gno/tm2/pkg/crypto"
	tmtime "github.com/gnolang/gno/tm2/pkg/bft/types/time"
)

// Witness of known finding C35-makecommit-stray-precommits: the commit built by
// MakeCommit keeps the precommit of a validator that voted for ANOTHER block (the
// first vote seen from it), although the statement says the commit contains only
// votes for the majority block. Passes exactly while that behaviour is present.
func TestGocvKnownC35MakeCommitStray(t *testing.T) {
	height, round := int64(1), 0
	voteSet, _, privs := randVoteSet(height, round, PrecommitType, 4, 1)
	blockA := BlockID{crypto.CRandBytes(32), PartSetHeader{7, crypto.CRandBytes(32)}}
	blockB := BlockID{crypto.CRandBytes(32), PartSetHeader{7, crypto.CRandBytes(32)}}
	mk := func(i int, b BlockID) *Vote {
		return &Vote{ValidatorAddress: privs[i].PubKey().Address(), ValidatorIndex: i, Height: height, Round: round,
			Timestamp: tmtime.Now(), Type: PrecommitType, BlockID: b}
	}
	if _, err := signAddVote(privs[0], mk(0, blockB), voteSet); err != nil {
		t.Fatal(err)
	}
	for i := 1; i < 4; i++ {
		if _, err := signAddVote(privs[i], mk(i, blockA), voteSet); err != nil {
			t.Fatal(err)
		}
	}
	maj, ok := voteSet.TwoThirdsMajority()
	if !ok || !maj.Equals(blockA) {
		t.Fatalf("expected a majority for block A")
	}
	commit := voteSet.MakeCommit()
	stray := 0
	for _, pc := range commit.Precommits {
		if pc != nil && !pc.BlockID.Equals(commit.BlockID) {
			stray++
		}
	}
	if stray == 0 {
		t.Fatalf("the commit no longer contains a precommit for another block: finding is stale")
	}
}
