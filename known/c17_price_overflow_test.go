package auth

import (
	"math"
	"testing"

	"github.com/gnolang/gno/tm2/pkg/std"
)

// Witness of known finding C17-price-int64-panic: calcBlockGasPrice panics
// ("out of int64 range") instead of returning a price when the increase would
// leave int64. Passes exactly while the defect is present.
func TestGocvKnownC17PriceOverflow(t *testing.T) {
	gk := GasPriceKeeper{}
	params := DefaultParams()
	params.TargetGasRatio = 50
	params.GasPricesChangeCompressor = 10
	last := std.GasPrice{Gas: 1000, Price: std.Coin{Denom: "ugnot", Amount: math.MaxInt64}}
	panicked := false
	func() {
		defer func() {
			if r := recover(); r != nil {
				panicked = true
			}
		}()
		gk.calcBlockGasPrice(last, 6000, 10000, params)
	}()
	if !panicked {
		t.Fatalf("calcBlockGasPrice no longer panics for a price at MaxInt64: finding is stale")
	}
}
