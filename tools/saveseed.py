#!/usr/bin/env python3
"""usage: saveseed.py <prop> <n> <name-suffix> <breaks> <needs> <detected_by> — copies seed_out/<n> of /tmp/wt-<prop> to /verif/seeded/<prop>-<suffix>/"""
import sys, os, shutil, json, glob
prop, n, suf, breaks, needs, det = sys.argv[1:7]
src = f"/tmp/wt-{prop}/seed_out/{n}"
dst = f"/verif/seeded/{prop}-{suf}"
os.makedirs(dst, exist_ok=True)
for f in glob.glob(src + "/**", recursive=True):
    if os.path.isfile(f):
        rel = os.path.relpath(f, src)
        os.makedirs(os.path.dirname(os.path.join(dst, rel)) or dst, exist_ok=True)
        shutil.copy(f, os.path.join(dst, rel))
conf = open(f"/tmp/confirm-{prop}-{n}.log").read() if os.path.exists(f"/tmp/confirm-{prop}-{n}.log") else ""
tr = open(f"/tmp/try-{prop}-{n}.log").read() if os.path.exists(f"/tmp/try-{prop}-{n}.log") else ""
meta = {
 "property": prop,
 "origin": "independent sub-agent (saw only the property record and a scratch worktree without the contract files)",
 "breaks": breaks, "needs": needs,
 "confirmed": ["existing tests of the touched packages pass with the change", "demo fails with the change", "demo passes without it",
               "re-run by tools/confirm_seed.sh in the scratch worktree: " + ("CONFIRMED" if ("CONFIRMED" in conf and "NOT CONFIRMED" not in conf) or ("fails as expected" in conf and "passes" in conf and "UNEXPECTED" not in conf) else "see notes")],
 "detected_by": det,
 "ran": "tools/confirm_seed.sh (existing tests / demo with / demo without), tools/try_seed.sh (registered check against the scratch worktree with the patch applied; evidence redirected)",
 "check_output": [l for l in tr.splitlines() if l.startswith(("property", "VIOLATION", "  failed", "exit="))][:8],
}
json.dump(meta, open(dst + "/meta.json", "w"), indent=1)
print("saved", dst)
