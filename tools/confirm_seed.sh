#!/bin/bash
# usage: confirm_seed.sh <worktree> <n> <demo-dest-dir (repo-relative)> <go test pkg pattern>...
# Confirms a seeded change in its scratch worktree: existing tests of the touched packages pass with
# the change, the demo fails with it and passes without it. Prints a summary; exit 0 iff all three hold.
wt=$1; n=$2; dest=$3; shift 3
export GOFLAGS=-mod=mod GOPROXY=off
cd $wt || exit 2
git checkout -q -- . ; 
demo=$(ls seed_out/$n/*_test.go | head -1)
dn=$(basename $demo)
ok=1
git apply seed_out/$n/patch.diff || { echo "patch does not apply"; exit 2; }
echo "== existing tests with the change: $@"
if go test -vet=off -count=1 -timeout 20m "$@" > /tmp/seedlog.$$ 2>&1; then echo "PASS (existing tests)"; else echo "FAIL (existing tests)"; tail -20 /tmp/seedlog.$$; ok=0; fi
cp $demo $dest/$dn
echo "== demo with the change (must fail)"
if go test -vet=off -count=1 -timeout 10m -run 'Seed|Demo' ./$dest/ > /tmp/seedlog.$$ 2>&1; then echo "UNEXPECTED PASS"; ok=0; else echo "fails as expected:"; grep -m3 -E -- '--- FAIL|panic:|Error' /tmp/seedlog.$$; fi
git apply -R seed_out/$n/patch.diff
echo "== demo without the change (must pass)"
if go test -vet=off -count=1 -timeout 10m -run 'Seed|Demo' ./$dest/ > /tmp/seedlog.$$ 2>&1; then echo "passes"; else echo "UNEXPECTED FAIL"; tail -20 /tmp/seedlog.$$; ok=0; fi
rm -f $dest/$dn /tmp/seedlog.$$
git checkout -q -- .
[ $ok = 1 ] && echo "CONFIRMED" || echo "NOT CONFIRMED"
[ $ok = 1 ]
