#!/usr/bin/env python3
"""usage: mkprompt.py <property-id> [tag] — prints the prompt given to an independent bug-seeding
sub-agent: the property record only, its scratch worktree, and one-line descriptions of the changes
already in /verif/seeded for that property (so they are not repeated). Nothing from /verif is shown."""
import json, sys, glob
pid = sys.argv[1]; tag = sys.argv[2] if len(sys.argv) > 2 else pid
prop = next(json.loads(l) for l in open('/verif/properties.jsonl') if json.loads(l)['id'] == pid)
wt = f"/tmp/wt-{tag}"
used = [json.load(open(f))['breaks'] for f in sorted(glob.glob(f'/verif/seeded/{pid}-*/meta.json'))]
print(f"""You are helping test a verification effort by acting as an independent "bug seeder". You work ONLY inside the scratch git worktree {wt} (a checkout of the Go monorepo gnolang/gno). Do not read or write anything under /verif or /repo; do not look outside the worktree except for the Go toolchain/module cache.

Property that should hold for this code base (this is all you are told):
{json.dumps(prop, indent=1)}

Task: produce TWO independent, realistic changes to the non-test Go (or .gno) source of the worktree, each of which BREAKS this property while the code still compiles and the existing tests of the touched package(s) still pass. Put the two changes in different functions (preferably different files among the anchor files, if more than one anchor file contains real logic for this property). Each change should be the kind of mistake a developer could plausibly make in a refactor or "optimisation" (off-by-one, wrong comparison, dropped guard, wrong operand, reordered statements, missing update, wrong index, etc.), and should need something SPECIFIC to manifest: an unusual/boundary input, a multi-step sequence of operations, or two cooperating sites that each look fine alone — NOT something that ordinary use or the existing tests expose at once. Do not touch test files, generated files, or comments only. Keep each change small (a few lines).

For each change i in {{1,2}} deliver, in the directory {wt}/seed_out/<i>/ :
  - patch.diff : `git diff` of ONLY that change against the worktree HEAD (apply-able with `git apply` from the repo root; the two patches must be independent of each other, each against clean HEAD).
  - a demonstration: a Go test file (state its intended location in the repo, e.g. tm2/pkg/foo/zz_seed_demo_test.go, in-package tests are fine) or, for .gno code, a _test.gno file, that FAILS with the change applied and PASSES on clean HEAD. Name the demo file zz_seed_demo_test.go (or zz_seed_demo_test.gno) and put its repo-relative target directory on the first line of notes.md as `demo-dir: <dir>`.
  - notes.md : which clause of the property is broken, what exactly is needed for it to manifest, and the exact commands you ran with their outcomes (existing package tests pass with the change; demo fails with the change; demo passes without it).

Environment facts: no network. Use `export GOFLAGS=-mod=mod GOPROXY=off` before go commands and do NOT set GOTOOLCHAIN or GOSUMDB (the default `go` auto-switches to the cached toolchain the repo needs). Run tests with e.g. `cd {wt}; go test -vet=off -count=1 -timeout 10m ./tm2/pkg/<pkg>/...` (the root module is at {wt}; check go.mod locations: some directories such as contribs/ and misc/ are separate modules). First builds may take a minute. Always use `-timeout 10m`. To run .gno tests: build the gno binary once (`cd {wt} && go build -o /tmp/gnobin-{tag} ./gnovm/cmd/gno`), then `cd <package dir> && GNOROOT={wt} /tmp/gnobin-{tag} test -v .` (remove that binary at the end).

You MUST verify all three facts yourself for each change (existing tests of the touched package pass with the change; demo fails with it; demo passes without it) before reporting. Leave the worktree at clean HEAD (git checkout -- . ; only seed_out/ left as untracked files). In your final answer, summarise each change in 3–5 lines (file, function, what was changed, what it needs to manifest) and confirm the verification results. If you cannot find two, deliver one.
""")
if used:
    print("Changes of this kind that were ALREADY used for this property — do not repeat these or close variants of them, pick different functions/mechanisms:")
    for u in used: print(" - " + u)
