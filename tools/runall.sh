#!/bin/bash
# runs every registered quick check; prints one line per property
tier=${1:-quick}
for id in $(jq -r '.checks[].property_id' /verif/MANIFEST.json); do
  s=$(date +%s)
  out=$(/verif/bin/check $id --tier $tier 2>&1); rc=$?
  e=$(( $(date +%s) - s ))
  echo "$id rc=$rc ${e}s $(echo "$out" | grep '^property' | cut -c1-120)"
  echo "$out" | grep -E "VIOLATION|STALE|failed obligation" | cut -c1-300 | head -5
done
