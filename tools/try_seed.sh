#!/bin/bash
# usage: try_seed.sh <property-id> <worktree> <n> [tier]
# Runs the registered check of <property-id> against the scratch worktree with seeded change <n>
# applied (contract files restored from /repo's HEAD first); evidence/replays go to a scratch dir.
id=$1; wt=$2; n=$3; tier=${4:-quick}
cd $wt || exit 2
git checkout -q -- .
# bring the worktree's contract files up to /repo's current HEAD
(cd /repo && git ls-files '*verif_contracts.go') | while read f; do mkdir -p $(dirname $wt/$f); cp /repo/$f $wt/$f; done
git apply seed_out/$n/patch.diff || { echo "patch does not apply"; exit 2; }
out=$(mktemp -d /tmp/gocv-seedout-XXXX)
GOCV_OUT=$out /verif/bin/gocv check $id --tier $tier --repo $wt 2>&1 | grep -v '^ *assume' | tail -${TAILN:-25}
echo "exit=${PIPESTATUS[0]}"
rm -rf $out
git checkout -q -- . ; (cd /repo && git ls-files '*verif_contracts.go') | while read f; do rm -f $wt/$f; done
git status --short | grep -v seed_out | head -3
