#!/bin/sh
# usage: addmutant.sh <name> <property> <repo-relative-file> <mutated-file> <pkg-pattern> <only-regex> <expected obligation substring>...
set -e
name=$1; prop=$2; file=$3; mut=$4; pkg=$5; only=$6; shift 6
d=/verif/selftest/mutants/$name
mkdir -p $d
diff -u /repo/$file $mut | sed "1s|.*|--- a/$file|; 2s|.*|+++ b/$file|" > $d/patch.diff || true
python3 - "$d" "$prop" "$file" "$pkg" "$only" "$@" <<'PY'
import json,sys
d,prop,file,pkg,only,*exp=sys.argv[1:]
json.dump({"property":prop,"file":file,"packages":pkg.split(),"only":only,"expect_failed":exp},open(d+"/meta.json","w"),indent=1)
PY
echo "added $name"
