#!/usr/bin/env python3
"""Regenerates /verif/MANIFEST.json from tools/claims.json (claimed checks) and
tools/not_applicable.json (reasons for every property not claimed)."""
import json, os, sys
root = "/verif"
props = [json.loads(l) for l in open(f"{root}/properties.jsonl")]
claims = json.load(open(f"{root}/tools/claims.json"))
na = json.load(open(f"{root}/tools/not_applicable.json"))
hooks = json.load(open(f"{root}/tools/hooks.json"))
checks = []
for p in props:
    c = claims.get(p["id"])
    if not c:
        continue
    checks.append({
        "property_id": p["id"],
        "quick_cmd": f"/verif/bin/check {p['id']} --tier quick",
        "thorough_cmd": f"/verif/bin/check {p['id']} --tier thorough",
        "evidence_file": f"/verif/evidence/{p['id']}.json",
        "replay_cmd_template": "/verif/bin/check --replay {path}",
        "engine": "gocv",
        "level_claimed": {"category": "proof", "text": c["text"], "design_ref": c.get("design_ref", "DESIGN.md §5")},
        "level_note": c["note"],
        "technique": c.get("technique", "contract-based deductive verification: weakest-precondition VCs generated from go/ssa of the real functions, discharged by z3/cvc5"),
    })
nal = []
for p in props:
    if p["id"] in claims:
        continue
    if p["id"] not in na:
        sys.exit(f"no reason recorded for unclaimed property {p['id']}")
    nal.append({"property_id": p["id"], "reason": na[p["id"]]})
m = {
    "version": 1,
    "setup_cmd": "/verif/bin/build",
    "hooks": hooks,
    "engines": [{"name": "gocv", "path": "/verif/engine", "serves_properties": sorted(claims.keys()),
                 "kind_free_text": "deductive verifier for Go written for this task: contracts as //@ comments in build-tagged verif_contracts.go files, symbolic execution of go/ssa with loop invariants and modular call contracts, one SMT-LIB query per named obligation, portfolio z3 4.8.12 / z3 5.1.0 / cvc5 1.0.3, counterexample replay on the real code via go test -overlay"}],
    "checks": checks,
    "not_applicable": nal,
    "notes": "Every claimed check is contract-based deductive verification of the real code (see DESIGN.md). Partial/thin claims say so in level_claimed.text and level_note.",
}
json.dump(m, open(f"{root}/MANIFEST.json", "w"), indent=1)
print(f"{len(checks)} checks, {len(nal)} not applicable")
