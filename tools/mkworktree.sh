#!/bin/sh
# usage: mkworktree.sh <dir>  — scratch worktree of /repo HEAD for an independent sub-agent,
# with the comment-only contract files removed (the agent must not see the contracts).
set -e
d=$1
git -C /repo worktree add --detach -f "$d" HEAD >/dev/null 2>&1
find "$d" -name verif_contracts.go -delete
git -C "$d" -c user.name=x -c user.email=x@x commit -qam "scratch: contract files removed" 
echo "$d"
