#!/bin/bash
# usage: try_replay.sh <seed-id> — applies /verif/seeded/<seed-id>/patch.diff to /repo, runs the check
# with outputs in a scratch dir, prints what the replay files say, and undoes the patch.
s=$1; id=${s%%-*}
if [ -n "$(git -C /repo status --short | grep -v '^??')" ]; then echo "refusing: /repo has uncommitted changes (the undo step would wipe them)"; exit 2; fi
git -C /repo apply /verif/seeded/$s/patch.diff || exit 2
out=/tmp/hr-$s; rm -rf $out; mkdir -p $out
GOCV_OUT=$out /verif/bin/gocv check $id --tier quick 2>&1 | grep -E "VIOLATION" | cut -c1-250
git -C /repo checkout -- .
python3 - $out <<'PY'
import json,glob,sys
for f in glob.glob(sys.argv[1]+'/replays/*/*.json'):
    d=json.load(open(f))
    print('  ', d.get('obligation'), '|', d.get('status'), '| reason:', d.get('reason'), '| observed:', d.get('observed'), '| confirmed:', d.get('confirmed'))
PY
rm -rf $out
