#!/bin/bash
# usage: try_patch.sh <property-id> <patch.diff> [tier] — applies the patch to /repo, runs the
# registered check (evidence/replays redirected to a scratch dir), and undoes the patch.
id=$1; patch=$2; tier=${3:-quick}
if [ -n "$(git -C /repo status --short | grep -v '^??')" ]; then echo "refusing: /repo has uncommitted changes (the undo step would wipe them)"; exit 2; fi
git -C /repo apply "$patch" || { echo "patch does not apply"; exit 2; }
out=$(mktemp -d /tmp/gocv-seedout-XXXX)
GOCV_OUT=$out /verif/bin/gocv check $id --tier $tier 2>&1 | grep -v '^ *assume' | grep -E "VIOLATION|failed obl|^property|left the" | cut -c1-280 | head -${TAILN:-6}
echo "exit=${PIPESTATUS[0]}"
rm -rf $out
git -C /repo checkout -- .
git -C /repo status --short | grep -v '^??' | head -3
