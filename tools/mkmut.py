#!/usr/bin/env python3
"""usage: mkmut.py <name> <prop> <repo-rel-file> <pkgs> <only-regex> <old> <new> <expected-obligation>... [--spec s] [--gno dir]
Creates a must-fail mutant by one exact string replacement in a scratch copy of the file."""
import sys, os, subprocess, tempfile, json
a = sys.argv[1:]
spec = []; gno = None
while "--spec" in a:
    i = a.index("--spec"); spec.append(a[i+1]); del a[i:i+2]
if "--gno" in a:
    i = a.index("--gno"); gno = a[i+1]; del a[i:i+2]
name, prop, f, pkgs, only, old, new, *exp = a
src = open("/repo/" + f).read()
if src.count(old) != 1:
    sys.exit(f"pattern occurs {src.count(old)} times")
d = tempfile.mkdtemp()
p = os.path.join(d, os.path.basename(f))
open(p, "w").write(src.replace(old, new))
md = "/verif/selftest/mutants/" + name
os.makedirs(md, exist_ok=True)
diff = subprocess.run(["diff", "-u", "/repo/" + f, p], capture_output=True, text=True).stdout.splitlines(True)
diff[0] = f"--- a/{f}\n"; diff[1] = f"+++ b/{f}\n"
open(md + "/patch.diff", "w").write("".join(diff))
meta = {"property": prop, "file": f, "packages": pkgs.split(), "only": only, "expect_failed": exp}
if spec: meta["specs"] = spec
if gno: meta["gno"] = gno
json.dump(meta, open(md + "/meta.json", "w"), indent=1)
print("added", name)
