// Package overflow: stand-in for Gno's math/overflow (same bodies as
// tm2/pkg/overflow, which is verified under C19); the contracts in
// /verif/contracts/gno are assumed.
package overflow

func Add64p(a, b int64) int64 {
	c := a + b
	if (c > a) == (b > 0) {
		return c
	}
	panic("addition overflow")
}

func Sub64p(a, b int64) int64 {
	c := a - b
	if (c < a) == (b > 0) {
		return c
	}
	panic("subtraction overflow")
}
