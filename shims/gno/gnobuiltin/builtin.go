// Package gnobuiltin declares the Gno predeclared types that Go lacks; the
// extraction adds `type address = gnobuiltin.Address` and `type realm =
// gnobuiltin.Realm` to the extracted package.
package gnobuiltin

type Address string

// IsValid: bech32 well-formedness of the address — a pure predicate (assumed).
func (a Address) IsValid() bool  { return isValid(string(a)) }
func (a Address) String() string { return string(a) }

var isValid func(string) bool

type Realm interface {
	IsCurrent() bool
	IsUserCall() bool
	PkgPath() string
	Address() Address
	Previous() Realm
	String() string
}
