package seqid

type ID uint64

func (i ID) String() string { return "" }
func (i *ID) Next() ID      { *i++; return *i }
