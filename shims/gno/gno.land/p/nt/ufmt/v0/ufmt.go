package ufmt

func Sprintf(format string, args ...any) string { return "" }
func Errorf(format string, args ...any) error   { return nil }
