// Package avl: the avl.Tree API realised by a Go map — this *is* the assumption
// "avl.Tree behaves as a finite map from string keys to values" (property C50 is
// not applicable; C51 assumes it). Iteration is not provided.
package avl

type Tree struct {
	m map[string]any
}

func NewTree() *Tree { return &Tree{m: map[string]any{}} }

func (tree *Tree) Size() int { return len(tree.m) }

func (tree *Tree) Has(key string) bool {
	_, ok := tree.m[key]
	return ok
}

func (tree *Tree) Get(key string) any { return tree.m[key] }

func (tree *Tree) Set(key string, value any) (updated bool) {
	_, updated = tree.m[key]
	if tree.m == nil {
		tree.m = map[string]any{}
	}
	tree.m[key] = value
	return
}

func (tree *Tree) Remove(key string) (value any, removed bool) {
	value, removed = tree.m[key]
	delete(tree.m, key)
	return
}

type IterCbFn func(key string, value any) bool

func (tree *Tree) Iterate(start, end string, cb IterCbFn) bool        { return false }
func (tree *Tree) ReverseIterate(start, end string, cb IterCbFn) bool { return false }
