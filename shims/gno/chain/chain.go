// Package chain: signature-only stand-in for the Gno standard library package
// "chain" (used to type-check extracted .gno files as Go). Emit has no effect on
// the modelled state.
package chain

import "gnoshim/gnobuiltin"

func Emit(typ string, attrs ...string) {}

func PackageAddress(pkgPath string) gnobuiltin.Address { return gnobuiltin.Address(pkgPath) }

type Coin struct {
	Denom  string
	Amount int64
}

type Coins []Coin

// SplitPkgSubPath: pure function of the path (assumed).
func SplitPkgSubPath(pkgPath string) (base, sub string, isSub bool) { return splitPkgSubPath(pkgPath) }

var splitPkgSubPath func(string) (string, string, bool)
